"""C17 — wraps/check decorators hand over correct magnitudes and enforce dimensions."""
from __future__ import annotations

from fractions import Fraction

from . import regs
from .core import Property, capture, frac_s, canon, err_name

# families of exactly convertible units: (spelling used in a spec string, canonical name)
FAM = {
    "length": [("meter", "meter"), ("cm", "centimeter"), ("km", "kilometer"), ("inch", "inch"), ("foot", "foot"), ("mile", "mile")],
    "time": [("second", "second"), ("minute", "minute"), ("hour", "hour"), ("ms", "millisecond")],
    "mass": [("gram", "gram"), ("kg", "kilogram"), ("pound", "pound")],
    "current": [("ampere", "ampere"), ("mA", "milliampere")],
}
DIMNAME = {"length": "[length]", "time": "[time]", "mass": "[mass]", "current": "[current]"}
NAMES = ["A", "B", "C"]


def val_j(v):
    if hasattr(v, "_units"):
        return {"m": frac_s(Fraction(v.magnitude)), "u": sorted([k, frac_s(regs.to_frac(e))] for k, e in v._units.items())}
    return {"num": frac_s(Fraction(v))}


def uc_s(c):
    """spec string of a container given as [(spelling, int exponent)]"""
    num = [f"{k}**{e}" if e != 1 else k for k, e in c if e > 0]
    den = [f"{k}**{-e}" if e != -1 else k for k, e in c if e < 0]
    s = " * ".join(num) if num else "1"
    for d in den:
        s += " / " + d
    return s


class Check(Property):
    ID = "C17"
    PROPS_FILE = "PintModel/Props/C17.lean"
    MODULE = "PintModel.Props.C17"
    EXTRA_LEAN_FILES = ["PintModel/Proofs/WrapsLemmas.lean"]
    RULE = ("generated signatures (1-5 parameters, defaults, keyword-only parameters), a unit specification per parameter "
            "(None, unit string, Unit object, '=A', '=A*B', '=A**2', '=A/B', repeated and undefined references, count "
            "mismatches), calls mixing positional / keyword / defaulted arguments with compatible, incompatible and bare "
            "values, strict on/off, scalar / tuple / None / referenced return specifications; ureg.check with dimension "
            "strings; non-trivial = distinct (signature, specs, call) with at least one converted argument")
    PARTIAL = ["string arguments in strict mode (parsed by parse_expression) and ndarray magnitudes are outside the model",
               "the dead 'missing token' validation of _parse_wrap_args (isinstance(arg, dict) is never true) is modelled "
               "as coded: an undefined reference is a KeyError at call time"]

    # ------------------------------------------------------------------ generation
    def rand_unit(self, rng, fam=None, compound=True):
        """-> (family key, [(spelling, exp)], [(canonical, exp)])"""
        if compound and rng.random() < 0.25:
            fa, fb = rng.sample(sorted(FAM), 2)
            a, b = rng.choice(FAM[fa]), rng.choice(FAM[fb])
            return f"{fa}/{fb}", [(a[0], 1), (b[0], -1)], [(a[1], 1), (b[1], -1)]
        fam = fam or rng.choice(sorted(FAM))
        a = rng.choice(FAM[fam])
        e = 1 if rng.random() < 0.8 else 2
        return (fam if e == 1 else f"{fam}^2"), [(a[0], e)], [(a[1], e)]

    def unit_of_family(self, rng, famkey):
        if "/" in famkey:
            fa, fb = famkey.split("/")
            a, b = rng.choice(FAM[fa]), rng.choice(FAM[fb])
            return [(a[1], 1), (b[1], -1)]
        if famkey.endswith("^2"):
            a = rng.choice(FAM[famkey[:-2]])
            return [(a[1], 2)]
        a = rng.choice(FAM[famkey])
        return [(a[1], 1)]

    def rand_val(self, rng, famkey=None, kind="compatible"):
        m = Fraction(rng.randint(-50, 50), rng.choice([1, 1, 2, 4]))
        if kind == "bare":
            return {"num": frac_s(m)}
        if kind == "compatible" and famkey:
            return {"m": frac_s(m), "u": [[k, frac_s(e)] for k, e in self.unit_of_family(rng, famkey)]}
        fk, _, canon_u = self.rand_unit(rng)
        return {"m": frac_s(m), "u": [[k, frac_s(e)] for k, e in canon_u]}

    def gen_case(self, rng):
        n = rng.randint(1, 5)
        kwonly_from = rng.randint(1, n) if rng.random() < 0.25 else n      # params at index >= kwonly_from are keyword-only
        first_default = rng.randint(0, n)
        sig, specs, fams = [], [], []
        defined = []
        for i in range(n):
            r = rng.random()
            if r < 0.15:
                specs.append(None); fams.append(None)
            elif r < 0.55:
                fk, spelled, canon_u = self.rand_unit(rng)
                as_obj = rng.random() < 0.3
                specs.append({"unit": [[k, frac_s(e)] for k, e in (canon_u if as_obj else spelled)], "str": uc_s(canon_u if as_obj else spelled),
                              "obj": as_obj})
                fams.append(fk)
            else:
                # references
                rr = rng.random()
                if rr < 0.45 or not defined:
                    nm = rng.choice(NAMES)
                    ref = [(nm, 1)]
                elif rr < 0.6:
                    ref = [(rng.choice(defined), 2)]
                elif rr < 0.8:
                    a = rng.choice(defined); b = rng.choice(NAMES)
                    ref = [(a, 1), (b, rng.choice([1, -1]))] if a != b else [(a, 2)]
                else:
                    ref = [(rng.choice(NAMES), rng.choice([1, -1, 2]))]
                if len(ref) == 1 and ref[0][1] == 1 and ref[0][0] not in defined:
                    defined.append(ref[0][0])
                specs.append({"ref": [[k, frac_s(e)] for k, e in ref], "str": "=" + uc_s(ref)})
                fams.append(None)
            sig.append({"name": f"p{i}", "default": None})
        for i in range(n):
            if i >= first_default or (i >= kwonly_from and rng.random() < 0.5):
                kind = rng.choice(["compatible", "compatible", "bare", "other"])
                sig[i]["default"] = self.rand_val(rng, fams[i], kind)
        # keep python happy: positional params with defaults must be a suffix of the positional part
        seen_default = False
        for i in range(kwonly_from):
            if sig[i]["default"] is not None:
                seen_default = True
            elif seen_default:
                sig[i]["default"] = self.rand_val(rng, fams[i], "compatible")
        # the call
        npos = rng.randint(0, kwonly_from)
        args, kw = [], []
        for i in range(n):
            r = rng.random()
            kind = "compatible" if r < 0.7 else ("bare" if r < 0.85 else "other")
            v = self.rand_val(rng, fams[i], kind)
            if i < npos:
                args.append(v)
            else:
                if sig[i]["default"] is not None and rng.random() < 0.5:
                    continue
                if rng.random() < 0.04:
                    continue         # a missing required argument
                kw.append([f"p{i}", v])
        if rng.random() < 0.03:
            kw.append([f"p{rng.randrange(n)}", self.rand_val(rng)])     # possibly a duplicate
        rng.shuffle(kw)
        # specs count mismatch
        mismatch = rng.random() < 0.06
        if mismatch:
            if rng.random() < 0.5 and len(specs) > 1:
                specs = specs[:-1]
            else:
                specs = specs + [None]
        # return spec
        r = rng.random()
        def one_ret():
            x = rng.random()
            if x < 0.25:
                return None
            if x < 0.7 or not defined:
                fk, spelled, canon_u = self.rand_unit(rng)
                return {"unit": [[k, frac_s(e)] for k, e in canon_u], "str": uc_s(spelled)}
            ref = [(rng.choice(defined), rng.choice([1, 2]))]
            if len(defined) > 1 and rng.random() < 0.5:
                ref = [(defined[0], 1), (defined[1], rng.choice([1, -1]))]
            return {"ref": [[k, frac_s(e)] for k, e in ref], "str": "=" + uc_s(ref)}
        if r < 0.7:
            ret = {"single": one_ret()}
            results = [rng.randint(1, 9)]
        else:
            k = rng.randint(1, 3)
            ret = {"tuple": [one_ret() for _ in range(k)]}
            results = [rng.randint(1, 9) for _ in range(k)]
        strict = rng.random() < 0.6
        return {"kind": "wraps", "sig": sig, "kwonly_from": kwonly_from, "specs": specs, "ret": ret, "strict": strict,
                "args": args, "kw": kw, "results": results, "mismatch": mismatch}

    def gen_check(self, rng):
        c = self.gen_case(rng)
        dims = []
        for i in range(len(c["sig"])):
            if rng.random() < 0.2:
                dims.append(None)
            else:
                fam = rng.choice(sorted(FAM))
                if rng.random() < 0.25:
                    f2 = rng.choice(sorted(FAM))
                    dims.append({"str": f"{DIMNAME[fam]} / {DIMNAME[f2]}" if fam != f2 else DIMNAME[fam],
                                 "d": [[DIMNAME[fam], "1/1"], [DIMNAME[f2], "-1/1"]] if fam != f2 else [[DIMNAME[fam], "1/1"]]})
                else:
                    dims.append({"str": DIMNAME[fam], "d": [[DIMNAME[fam], "1/1"]]})
        if rng.random() < 0.06:
            dims = dims[:-1] if len(dims) > 1 else dims + [None]
        # arguments: mostly of the declared dimension
        fam_of = {v: k for k, v in DIMNAME.items()}

        def val_for(d):
            if d is None or rng.random() < 0.25:
                return self.rand_val(rng, None, rng.choice(["other", "bare"]))
            if len(d["d"]) == 1:
                return self.rand_val(rng, fam_of[d["d"][0][0]], "compatible")
            return self.rand_val(rng, fam_of[d["d"][0][0]] + "/" + fam_of[d["d"][1][0]], "compatible")
        n = len(c["sig"])
        dd = (dims + [None] * n)[:n]
        c["args"] = [val_for(dd[i]) for i in range(len(c["args"]))]
        c["kw"] = [[k, val_for(dd[int(k[1:])])] for k, _ in c["kw"]]
        for i, p in enumerate(c["sig"]):
            if p["default"] is not None:
                p["default"] = val_for(dd[i])
        c["kind"] = "check"
        c["dims"] = dims
        return c

    def model_spec(self, s):
        if s is None:
            return None
        if "unit" in s:
            return {"unit": s["unit"]}
        return {"ref": s["ref"]}

    def cases(self):
        rng = self.rng
        out = []
        for _ in range(2500 if self.tier == "quick" else 50000):
            c = self.gen_case(rng)
            ret = c["ret"]
            mret = {"single": self.model_spec(ret["single"])} if "single" in ret else {"tuple": [self.model_spec(x) for x in ret["tuple"]]}
            c["ops"] = [{"op": "wraps", "f": "call", "sig": c["sig"], "specs": [self.model_spec(s) for s in c["specs"]], "ret": mret,
                         "strict": c["strict"], "args": c["args"], "kw": c["kw"], "results": [frac_s(x) for x in c["results"]]}]
            self.bump("wraps")
            for s in c["specs"]:
                self.bump("spec." + ("none" if s is None else ("unit" if "unit" in s else "ref")))
            out.append(c)
        for _ in range(800 if self.tier == "quick" else 15000):
            c = self.gen_check(rng)
            c["ops"] = [{"op": "wraps", "f": "check", "sig": c["sig"], "args": c["args"], "kw": c["kw"],
                         "dims": [None if d is None else d["d"] for d in c["dims"]]}]
            self.bump("check")
            out.append(c)
        # conversions that are not a multiplication (offset scales) and conversions that depend on the active contexts,
        # through ONE wrapped function called several times
        for _ in range(40 if self.tier == "quick" else 600):
            self.bump("wraps: offset scales / active context, repeated calls")
            out.append({"kind": "repeat", "seed": rng.getrandbits(32), "ops": []})
        return out

    # ------------------------------------------------------------------ implementation
    def py_val(self, u, j):
        if j is None:
            return None
        if "num" in j:
            x = Fraction(j["num"])
            return int(x) if x.denominator == 1 else x
        return u.Quantity(Fraction(j["m"]), u.Unit(u.UnitsContainer({k: int(Fraction(e)) for k, e in j["u"]})))

    def build(self, u, c, rec):
        params = []
        ns = {"REC": rec, "RES": c["results"], "SINGLE": c["kind"] == "check" or "single" in c["ret"]}
        for i, p in enumerate(c["sig"]):
            if i == c["kwonly_from"] and i < len(c["sig"]):
                params.append("*")
            if p["default"] is not None:
                ns[f"D{i}"] = self.py_val(u, p["default"])
                params.append(f"{p['name']}=D{i}")
            else:
                params.append(p["name"])
        names = ", ".join(f"'{p['name']}': {p['name']}" for p in c["sig"])
        src = f"def func({', '.join(params)}):\n    REC.append({{{names}}})\n    return RES[0] if SINGLE else tuple(RES)\n"
        exec(src, ns)
        return ns["func"]

    def spec_obj(self, u, s):
        if s is None:
            return None
        if "unit" in s and s.get("obj"):
            return u.Unit(s["str"])
        return s["str"]

    def run_real(self, c):
        u = regs.ureg("fraction")
        rec = []
        func = self.build(u, c, rec)
        args = [self.py_val(u, v) for v in c["args"]]
        kw = {}
        dup = False
        for k, v in c["kw"]:
            if k in kw:
                dup = True
            kw[k] = self.py_val(u, v)
        if c["kind"] == "check":
            deco = u.check(*[None if d is None else d["str"] for d in c["dims"]])
            g = deco(func)
            g(*args, **kw)
            return {"ok": None}, dup
        ret = c["ret"]
        rspec = self.spec_obj(u, ret["single"]) if "single" in ret else tuple(self.spec_obj(u, x) for x in ret["tuple"])
        g = u.wraps(rspec, tuple(self.spec_obj(u, s) for s in c["specs"]), strict=c["strict"])(func)
        r = g(*args, **kw)
        got = rec[-1]
        rl = list(r) if isinstance(r, tuple) else [r]
        return {"ok": {"recv": {k: val_j(v) for k, v in got.items()}, "ret": [val_j(x) for x in rl]}}, dup

    def impl(self, c):
        if c["kind"] == "repeat":
            return []
        try:
            o, dup = self.run_real(c)
        except Exception as exc:  # noqa: BLE001
            return [{"err": err_name(exc)}]
        if dup:
            return [{"skip": True}]
        return [o]

    def expect(self, c, mo):
        if c["kind"] == "repeat":
            return mo
        m = mo[0]
        if "ok" in m and c["kind"] == "wraps":
            recv = {}
            for i, v in enumerate(m["ok"]["recv"]):
                recv[c["sig"][i]["name"]] = v
            for k, v in m["ok"]["kw"]:
                recv[k] = v
            return [{"ok": {"recv": recv, "ret": m["ok"]["ret"]}}]
        return mo

    def same(self, c, io, mo):
        if c["kind"] == "repeat":
            return True
        i, m = io[0], mo[0]
        if "skip" in i or len({k for k, _ in c["kw"]}) != len(c["kw"]):
            return True       # a keyword given twice cannot be expressed in a Python call
        if "err" in i and "err" in m:
            a, b = i["err"].split(":")[-1], m["err"]
            return a == b
        return canon(i) == canon(m)

    def nontrivial(self, c, io):
        if c["kind"] == "repeat":
            return f"repeat:{c['seed']}"
        if "ok" in io[0]:
            return canon({k: c[k] for k in ("sig", "specs", "args", "kw", "strict", "kind") if k in c})
        return None

    # ------------------------------------------------------------------ oracle: the property on the real code
    def factor(self, P, units):
        f, _ = P.proj.root({k: Fraction(e) for k, e in units})
        return f

    def dims(self, P, units):
        return {k: v for k, v in P.proj.dimensionality({k: Fraction(e) for k, e in units}).items() if v != 0}

    def oracle_repeat(self, c):
        import random
        rng = random.Random(c["seed"])
        u = regs.ureg("fraction")
        v = []
        K = {"kelvin": (Fraction(1), Fraction(0)), "degree_Celsius": (Fraction(1), Fraction(27315, 100)),
             "degree_Fahrenheit": (Fraction(5, 9), Fraction(45967, 180)), "degree_Rankine": (Fraction(5, 9), Fraction(0))}
        dst = rng.choice(sorted(K))
        got = []
        f = u.wraps(None, dst)(lambda x: got.append(x) or x)
        for _ in range(rng.randint(2, 4)):
            src = rng.choice(sorted(K))
            t = Fraction(rng.randint(-40, 400), rng.choice([1, 2, 4]))
            want = (t * K[src][0] + K[src][1] - K[dst][1]) / K[dst][0]
            del got[:]
            try:
                f(u.Quantity(t, src))
                if not got or got[0] != want:
                    v.append(f"C17 wraps(None, {dst!r}) called with {t} {src}: the function received {got[0] if got else None!r}, "
                             f"the conversion gives {want}")
            except Exception as exc:  # noqa: BLE001
                v.append(f"C17 wraps(None, {dst!r}) called with {t} {src}: raised {type(exc).__name__}: {exc}")
        # a default that is an array quantity is converted like an argument
        import numpy as np
        uf = regs.ureg("float")

        def fdef(x, y=uf.Quantity(np.array([1.0, 2.0]), "meter")):
            return y
        try:
            ry = uf.wraps(None, ("meter", "centimeter"))(fdef)(uf.Quantity(1.0, "meter"))
            if list(np.asarray(ry)) != [100.0, 200.0]:
                v.append(f"C17 wraps(None, ('meter', 'centimeter')) with the default y = [1, 2] meter: the function received {ry!r}")
        except Exception as exc:  # noqa: BLE001
            v.append(f"C17 wraps with an array-quantity default that is used: raised {type(exc).__name__}: {exc}")
        # array arguments and array defaults, called repeatedly: every call hands over the converted magnitudes and leaves the
        # caller's quantity (and the stored default) as they were - scaled units, offset scales, '=A' references
        for decl, units_, vals, wantf in ((("meter",), "centimeter", [150.0, 250.0], lambda a: a / 100),
                                         (("kelvin",), "degree_Celsius", [25.0, 100.0], lambda a: a + 273.15),
                                         (("centimeter / second ** 2",), "meter / second ** 2", [9.8, 1.0], lambda a: a * 100),
                                         (("=A",), "inch", [1.0, 2.0], lambda a: a)):
            seen = []
            h = uf.wraps(None, decl)(lambda x: seen.append(np.array(x, copy=True)) or 0)
            qa = uf.Quantity(np.array(vals), units_)
            for call in (1, 2, 3):
                del seen[:]
                try:
                    h(qa)
                except Exception as exc:  # noqa: BLE001
                    v.append(f"C17 wraps(None, {decl}) call {call} with {vals} {units_}: raised {type(exc).__name__}: {exc}")
                    break
                if not seen or not np.allclose(seen[0], wantf(np.array(vals)), rtol=1e-12):
                    v.append(f"C17 wraps(None, {decl}) call {call} with the same quantity {vals} {units_}: the function received "
                             f"{seen[0].tolist() if seen else None}, the conversion gives {wantf(np.array(vals)).tolist()}")
                    break
                if not np.array_equal(np.asarray(qa.magnitude), np.array(vals)) or str(qa.units) != str(uf.Unit(units_)):
                    v.append(f"C17 wraps(None, {decl}) call {call}: the caller's quantity {vals} {units_} now reads {qa!r}")
                    break
        seen = []

        def fdef2(x, g_=uf.Quantity(np.array([9.8]), "meter / second ** 2")):
            seen.append(np.array(g_, copy=True))
            return 0
        h2 = uf.wraps(None, ("meter", "centimeter / second ** 2"))(fdef2)
        for call in (1, 2, 3):
            del seen[:]
            try:
                h2(uf.Quantity(1.0, "meter"))
                if not seen or not np.allclose(seen[0], [980.0]):
                    v.append(f"C17 wraps with the array default 9.8 m/s**2 declared in cm/s**2, call {call}: the function received "
                             f"{seen[0].tolist() if seen else None}, expected [980.0]")
                    break
            except Exception as exc:  # noqa: BLE001
                v.append(f"C17 wraps with an array default, call {call}: raised {type(exc).__name__}: {exc}")
                break
        # wraps under the with_context decorator (parameters given to the decorator): the wrapped function receives the magnitude
        # converted by the context's rule WITH those parameters - positional, keyword and default arguments alike
        try:
            fl = regs.fresh("float")
            lam = fl.Quantity(530.0, "nanometer")
            for n_ in (1.33, 2.0):
                want = lam.to("terahertz", "sp", n=n_).magnitude
                seen = []

                @fl.with_context("sp", n=n_)
                @fl.wraps("terahertz", ("terahertz",))
                def ident(f_):
                    seen.append(f_)
                    return f_

                @fl.with_context("sp", n=n_)
                @fl.wraps(None, ("terahertz", None))
                def two(f_, k=1):
                    seen.append(f_)
                    return f_
                for label, call in (("positional", lambda: ident(lam)), ("keyword", lambda: ident(f_=lam)), ("with another keyword", lambda: two(lam, k=3))):
                    del seen[:]
                    call()
                    if not seen or abs(seen[0] - want) > 1e-9 * want:
                        v.append(f"C17 @with_context('sp', n={n_}) around wraps(('terahertz',)), {label} call with 530 nm: the function received "
                                 f"{seen[0] if seen else None}, the context's rule with n={n_} gives {want}")
            # a decorated function that refuses its argument (or raises itself) leaves the registry as it was: afterwards an
            # undecorated wraps still refuses what only the context could convert
            plain_w = fl.wraps(None, "terahertz")(lambda f_: f_)
            in_sp = fl.with_context("sp")(fl.wraps(None, "terahertz")(lambda f_: f_))
            checked = fl.with_context("sp")(fl.check("[length]")(lambda x_: x_))

            def boom(f_):
                raise RuntimeError("inside")
            raising = fl.with_context("sp")(fl.wraps(None, "terahertz")(boom))
            for label, call in (("wraps refusing 1 kg", lambda: in_sp(fl.Quantity(1.0, "kilogram"))), ("check refusing 1 s", lambda: checked(fl.Quantity(1.0, "second"))),
                                ("the function raising", lambda: raising(lam))):
                try:
                    call()
                except Exception:  # noqa: BLE001
                    pass
                leaked = [c_.name for c_ in fl._active_ctx.contexts]
                try:
                    got_ = plain_w(lam)
                    outcome = f"received {got_}"
                except Exception as exc:  # noqa: BLE001
                    outcome = type(exc).__name__
                if leaked or outcome != "DimensionalityError":
                    v.append(f"C17 after a @with_context('sp') function ended with an exception ({label}): active contexts {leaked}, an undecorated "
                             f"wraps(None, 'terahertz') called with 530 nm: {outcome} (DimensionalityError expected)")
                    fl.disable_contexts()
        except Exception as exc:  # noqa: BLE001
            v.append(f"C17 with_context + wraps probe raised {type(exc).__name__}: {exc}")
        # a conversion only an active context allows: inside the context the rule applies, outside the call is refused
        g = u.wraps(None, "terahertz")(lambda x: got.append(x) or x)
        q = u.Quantity(Fraction(rng.randint(100, 900)), "nanometer")
        order = ["in", "out"] if rng.random() < 0.5 else ["out", "in"]
        for where in order + order:
            del got[:]
            try:
                if where == "in":
                    with u.context("sp"):
                        g(q)
                    want = q.to("terahertz", "sp").magnitude
                    if not got or got[0] != want:
                        v.append(f"C17 wraps(None, 'terahertz') inside the context sp with {q}: received {got[0] if got else None!r}, expected {want}")
                else:
                    g(q)
                    v.append(f"C17 wraps(None, 'terahertz') outside any context accepted {q} (received {got[0] if got else None!r})")
            except Exception as exc:  # noqa: BLE001
                if where == "in" or type(exc).__name__ != "DimensionalityError":
                    v.append(f"C17 wraps(None, 'terahertz') {where}side the context sp with {q}: raised {type(exc).__name__}")
        return v

    def oracle(self, c):
        if c["kind"] == "repeat":
            return self.oracle_repeat(c)
        P = regs.pools()
        v = []
        dup = len({k for k, _ in c["kw"]}) != len(c["kw"])
        if dup:
            return v
        try:
            o, _ = self.run_real(c)
            res = ("ok", o["ok"])
        except Exception as exc:  # noqa: BLE001
            res = ("err", err_name(exc).split(":")[-1])
        n = len(c["sig"])
        tag = f"C17 {c['kind']} specs={[None if s is None else s['str'] for s in c.get('specs', [])] if c['kind'] == 'wraps' else [None if d is None else d['str'] for d in c['dims']]} " \
              f"strict={c.get('strict')} args={c['args']} kw={c['kw']}"
        tag = tag[:600]
        decl = c["specs"] if c["kind"] == "wraps" else c["dims"]
        if len(decl) != n:
            if res != ("err", "TypeError"):
                v.append(f"{tag}: {len(decl)} declarations for {n} parameters gave {res[0]} {res[1] if res[0] == 'err' else ''}")
            return v
        # bind the call like Python does
        bound = {}
        for i, a in enumerate(c["args"]):
            bound[c["sig"][i]["name"]] = a
        bad_call = len(c["args"]) > c["kwonly_from"]
        for k, a in c["kw"]:
            if k in bound:
                bad_call = True
            bound[k] = a
        for p in c["sig"]:
            if p["name"] not in bound and p["default"] is not None:
                bound[p["name"]] = p["default"]
        missing = [p["name"] for p in c["sig"] if p["name"] not in bound]
        if missing or bad_call:
            if res[0] != "err":
                v.append(f"{tag}: an ill-formed call (missing {missing}) returned")
            return v
        if c["kind"] == "check":
            mismatch = False
            for p, d in zip(c["sig"], c["dims"]):
                if d is None:
                    continue
                a = bound[p["name"]]
                da = self.dims(P, a["u"]) if "u" in a else {}
                want = {k: Fraction(e) for k, e in d["d"]}
                if da != want:
                    mismatch = True
            if mismatch and res != ("err", "DimensionalityError"):
                v.append(f"{tag}: an argument's dimensionality differs from the declared one but the call gave {res}")
            if not mismatch and res[0] == "err":
                v.append(f"{tag}: all dimensionalities match but the call raised {res[1]}")
            return v
        # wraps: expected values per parameter
        named = {}
        tags = []
        for p, s in zip(c["sig"], c["specs"]):
            if s is not None and "ref" in s and len(s["ref"]) == 1 and Fraction(s["ref"][0][1]) == 1 and s["ref"][0][0] not in named:
                named[s["ref"][0][0]] = bound[p["name"]]
                tags.append("def")
            elif s is not None and "ref" in s:
                tags.append("dep")
            elif s is None:
                tags.append("none")
            else:
                tags.append("unit")
        expected = {}
        err = None

        def derived(ref):
            out = {}
            for nm, e in ref:
                if nm not in named:
                    raise KeyError(nm)
                for k, x in (named[nm].get("u") or []):
                    out[k] = out.get(k, Fraction(0)) + Fraction(x) * Fraction(e)
            return [(k, x) for k, x in out.items() if x != 0]

        def conv(a, dst):
            su = a.get("u", [])
            if self.dims(P, su) != self.dims(P, dst):
                return "DimensionalityError"
            m = Fraction(a["m"]) if "m" in a else Fraction(a["num"])
            return m * self.factor(P, su) / self.factor(P, dst)
        # error precedence of the implementation: dependent arguments are converted before plain units
        for phase in ("dep", "unit"):
            for p, s, t in zip(c["sig"], c["specs"], tags):
                if t != phase:
                    continue
                a = bound[p["name"]]
                if t == "dep":
                    try:
                        dst = derived(s["ref"])
                    except KeyError:
                        err = err or "KeyError"
                        continue
                    r = conv(a, dst)
                else:
                    if "num" in a:
                        if c["strict"]:
                            err = err or "ValueError"
                        else:
                            expected[p["name"]] = Fraction(a["num"])
                        continue
                    r = conv(a, [(k, e) for k, e in s["unit"]])
                if isinstance(r, str):
                    err = err or r
                else:
                    expected[p["name"]] = r
        for p, s, t in zip(c["sig"], c["specs"], tags):
            a = bound[p["name"]]
            if t == "none":
                expected[p["name"]] = a
            elif t == "def":
                expected[p["name"]] = Fraction(a["m"]) if "m" in a else Fraction(a["num"])
        if err:
            if res != ("err", err):
                v.append(f"{tag}: expected {err}, got {res if res[0] == 'err' else 'a result'}")
            return v
        if res[0] == "err":
            # a return specification may still reference an undefined name
            rs = [c["ret"]["single"]] if "single" in c["ret"] else c["ret"]["tuple"]
            undefined = any(s is not None and "ref" in s and any(nm not in named for nm, _ in s["ref"]) for s in rs)
            if not (undefined and res[1] == "KeyError"):
                v.append(f"{tag}: every argument is acceptable but the call raised {res[1]}")
            return v
        got = res[1]["recv"]
        for name, want in expected.items():
            g = got[name]
            if isinstance(want, dict):
                if canon(g) != canon({"m": want["m"], "u": sorted(want["u"])} if "m" in want else want):
                    v.append(f"{tag}: parameter {name} declared None received {g}, the caller passed {want}")
            else:
                if "num" not in g or Fraction(g["num"]) != want:
                    v.append(f"{tag}: parameter {name} received {g}, expected the magnitude {want}")
        # return value
        rs = [c["ret"]["single"]] if "single" in c["ret"] else c["ret"]["tuple"]
        for s, r, raw in zip(rs, res[1]["ret"], c["results"]):
            if s is None:
                ok = r == {"num": frac_s(raw)}
            else:
                dst = [(k, Fraction(e)) for k, e in s["unit"]] if "unit" in s else derived(s["ref"])
                ok = "m" in r and Fraction(r["m"]) == raw and self.dims(P, r["u"]) == self.dims(P, dst) and \
                    self.factor(P, r["u"]) == self.factor(P, dst)
            if not ok:
                v.append(f"{tag}: return value {r} for raw result {raw} and return specification {None if s is None else s['str']}")
        return v
