"""C10 — definition files mean what they say, independent of order and loading path."""
from __future__ import annotations

import logging
import os
import random
import shutil
import tempfile
from decimal import Decimal
from fractions import Fraction

from . import regs, defgen
from .core import Property, capture, frac_s, canon, err_name
from .regs import D

MALFORMED = [
    ("invalid unit name", "2bad = 3 * metre"),
    ("invalid unit name", "bad-name = 3 * metre"),
    ("mixed reference", "mixu = 3 * metre * [length]"),
    ("non-numeric modifier", "degQ = kelvin; offset: abc"),
    ("unknown modifier", "degQ = kelvin; offsett: 3"),
    ("unknown modifier set", "degQ = kelvin; offset: 3; logbase: 2"),
    ("unknown directive", "@foo bar\n    x = 1\n@end"),
    ("unterminated block", "@group GX\n    gxu = 3 * metre"),
    ("cycle", "cyca = 2 * cycb\ncycb = 3 * cyca"),
    ("self cycle", "cycs = 2 * cycs"),
    ("undefined reference", "undr = 2 * nosuchunit"),
    ("derived dimension with unit", "[baddim] = [length] * metre"),
    ("prefix not numeric", "pfx- = metre"),
    ("two equalities in defaults", "@defaults\n    group = a = b\n@end"),
    ("unknown default key", "@defaults\n    grup = a\n@end"),
    ("invalid dimension name", "[bad dim] = [length] ** 2"),
    ("base unit with scale", "scbase = 3 * [scdim]"),
    ("alias of unknown unit", "@alias nosuchunit = nsu"),
    ("invalid prefix name", "2p- = 10"),
    ("modifier without a value", "degQ = kelvin; offset:"),
    ("group name that is not a name", "@group test-imp\n    tiu = 2 * metre\n@end"),
    ("system name that is not a name", "@system sys-x\n    metre\n@end"),
    ("unit without a value", "novalue ="),
    ("unit without a value but a symbol", "novalue2 = = nv2"),
    ("prefix without a value", "nopfx- ="),
    ("modifier given twice", "degQ2 = kelvin; offset: 1; offset: 2"),
    ("prefix symbol that is not a symbol", "badsym- = 1000 = k k-"),
    ("modifier without a colon", "degQ = kelvin; offset 273.15"),
    ("stray text after the modifiers", "degQ = 2 * kelvin; offset: 10; bogus"),
    ("number in place of a modifier", "degQ = kelvin; 273.15"),
    ("symbol with a blank", "blsym = 3 * metre = bl sym"),
]


def sem_of_registry(u, names, spellings, dims=()):
    """observable meaning through the public / read-only API"""
    out = {}
    for n in names:
        def one(n=n):
            f, b = u.get_root_units(u.UnitsContainer({n: 1}), check_nonmult=False)
            dim = u.get_dimensionality(u.UnitsContainer({n: 1}))
            d = u._units[n]
            return {"f": frac_s(Fraction(f)) if not isinstance(f, float) else "float",
                    "root": sorted([k, frac_s(regs.to_frac(v))] for k, v in b._units.items()),
                    "dim": sorted([k, frac_s(regs.to_frac(v))] for k, v in dim.items()),
                    "symbol": d.symbol, "mult": d.is_multiplicative,
                    "offset": frac_s(Fraction(getattr(d.converter, "offset", 0)))}
        out[n] = capture(one)
    for s in spellings:
        out["name:" + s] = capture(lambda s=s: u.get_name(s))
    for d in dims:
        out["dimname:" + d] = capture(lambda d=d: sorted([k, frac_s(regs.to_frac(v))] for k, v in u.get_dimensionality(d).items()))
    return out


class Check(Property):
    ID = "C10"
    PROPS_FILE = "PintModel/Props/C10.lean"
    MODULE = "PintModel.Props.C10Load"
    EXTRA_PROPS_FILES = ["PintModel/Props/C10Load.lean"]
    EXTRA_LEAN_FILES = ["PintModel/Proofs/LoadLemmas.lean"]
    RULE = ("(a) every key of the default registry's unit/prefix/dimension tables against the tables the translator "
            "generates for the Lean model (exhaustive); (b) generated definition files (random DAG of units, "
            "prefixes, aliases, symbols, derived dimensions, offset units, groups, a system), each loaded as a list "
            "of lines, from a file, line by line through define(), with a cold and a warm on-disk cache, with "
            "permuted unit/prefix lines and varied layout, in float/Fraction/Decimal registries, compared with the "
            "model loaded from the independent reader; (c) a malformed stream that must raise at load or first use; "
            "non-trivial = distinct (file, variant) and default keys that are not canonical names")
    PARTIAL = ["flexparser / flexcache internals (hashing, pickling of the cache) are runtime",
               "the line parser itself (splitting at '=', ';', ':') is modelled by the independent reader "
               "tools/defreader.py, not in Lean"]

    # ------------------------------------------------------------------ cases
    def cases(self):
        rng = self.rng
        out = []
        u = regs.ureg("fraction")
        keys = list(u._units)
        if self.tier == "quick":
            keys = rng.sample(keys, 400)
        for k in keys:
            self.bump("default unit key")
            out.append({"kind": "dkey", "s": k, "ops": [{"op": "unit_def", "s": k}]})
        for k in u._prefixes:
            self.bump("default prefix key")
            out.append({"kind": "pkey", "s": k, "ops": [{"op": "prefix_def", "s": k}]})
        for k in u._dimensions:
            self.bump("default dimension")
            out.append({"kind": "dimkey", "s": k, "ops": [{"op": "dim_def", "s": k}]})
        out.append({"kind": "tables", "ops": [{"op": "tables"}]})
        nfiles = 12 if self.tier == "quick" else 300
        variants = ["lines", "file", "define", "perm", "layout", "cache-cold", "cache-warm", "decimal", "float"]
        for i in range(nfiles):
            g = defgen.GenFile(random.Random(rng.getrandbits(32)), n_units=rng.randint(5, 14))
            txt = g.text()
            try:
                recs = D.read_lines(txt.splitlines())
            except D.DefError:
                continue
            defs = self.defs_json(recs)
            proj = D.Project(recs)
            names = list(g.unit_names)
            spellings = [k for k in proj.unit_by_key if k not in names][:12]
            pk = [k for k, _ in proj.prefix_keys if k]
            for n in rng.sample(names, min(4, len(names))):
                if pk and n not in g.offset_units:
                    spellings.append(rng.choice(pk) + n)
                    spellings.append(n + "s")
            ops = [{"op": "load", "defs": defs}]
            for n in names:
                ops += [{"op": "root", "u": [[n, "1/1"]]}, {"op": "dim", "u": [[n, "1/1"]]}, {"op": "unit_info", "s": n}]
            for s in spellings:
                ops.append({"op": "resolve", "s": s})
            dimnames = [l.split("=")[0].strip() for kind_, l in g.lines if kind_ == "dim"]
            for d in dimnames:
                ops.append({"op": "dim", "u": [[d, "1/1"]]})
            ops.append({"op": "reset"})
            for var in (variants if self.tier != "quick" else rng.sample(variants, 5)):
                self.bump("generated." + var)
                out.append({"kind": "gen", "file": i, "variant": var, "text": txt, "names": names, "spellings": spellings,
                            "seed": rng.getrandbits(32), "ops": ops, "lines": [l for _, l in g.lines], "dims": dimnames,
                            "ctx": g.context})
        # the hypotheses of the order-independence theorems (Props/C10Load.lean): lists of lines with clashing
        # spellings, written delta_ units next to automatic companions, alias lines before / after their unit —
        # loaded in the order given, every key probed: the model's "later line wins" must be pint's
        for lines, keys in self.order_cases(rng, 12 if self.tier == "quick" else 400):
            try:
                recs = D.read_lines(lines)
            except D.DefError:
                continue
            self.bump("order/clash")
            ops = [{"op": "load", "defs": self.defs_json(recs)}] + [{"op": "unit_def", "s": k} for k in keys] + [{"op": "reset"}]
            out.append({"kind": "order", "lines": lines, "keys": keys, "ops": ops})
        for label, snippet in MALFORMED:
            self.bump("malformed")
            out.append({"kind": "malformed", "label": label, "snippet": snippet, "ops": []})
        return out

    FIXED_ORDER = [
        (["ma = [la]", "degC = ma; offset: 273", "delta_degC = 2 * ma"], ["delta_degC", "degC"]),
        (["ma = [la]", "delta_degC = 2 * ma", "degC = ma; offset: 273"], ["delta_degC", "degC"]),
        (["meter = [length] = m", "mile = 1609 * meter = m"], ["m", "meter", "mile"]),
        (["mile = 1609 * meter = m", "meter = [length] = m"], ["m", "meter", "mile"]),
        (["meter = [length] = m", "@alias meter = metre"], ["metre", "meter"]),
        (["@alias meter = metre", "meter = [length] = m"], ["metre", "meter"]),
    ]

    def order_cases(self, rng, n):
        out = [(list(l), list(k)) for l, k in self.FIXED_ORDER]
        syms = ["s1", "s2", "s3"]
        for _ in range(n):
            lines = ["ba = [da] = " + rng.choice(syms + ["_"])]
            names = ["ba"]
            for i in range(rng.randint(2, 5)):
                nm = rng.choice(["ua", "ub", "uc", "delta_ua", "delta_ub"])
                ref = rng.choice(names)
                l = f"{nm} = {rng.randint(2, 9)} * {ref}"
                if rng.random() < 0.4 and not nm.startswith("delta_"):
                    l += f"; offset: {rng.randint(1, 5)}"
                l += " = " + rng.choice(syms + ["_", "_"])
                if rng.random() < 0.4:
                    l += " = " + rng.choice(["al1", "al2", "ua", "ub"])
                lines.append(l)
                names.append(nm)
            if rng.random() < 0.3:
                lines.insert(rng.randrange(len(lines) + 1), "@alias " + rng.choice(names) + " = " + rng.choice(["al1", "al3"]))
            keys = sorted(set(names + syms + ["al1", "al2", "al3", "delta_ua", "delta_ub", "delta_uc"]))
            out.append((lines, keys))
        return out

    def defs_json(self, recs):
        out = []

        def unit(r):
            s = r["scale"]
            if isinstance(s, D.Irr) or r.get("fracpow"):
                conv = {"kind": "irrational"}
            elif r["conv"] == "offset":
                conv = {"kind": "offset", "scale": frac_s(s), "offset": frac_s(r["modifiers"]["offset"])}
            elif r["conv"] == "log":
                conv = {"kind": "irrational"}
            else:
                conv = {"kind": "scale", "scale": frac_s(s)}
            return {"kind": "unit", "name": r["name"], "symbol": r["symbol"], "aliases": r["aliases"], "conv": conv,
                    "ref": [[k, frac_s(v)] for k, v in r["ref"].items()], "is_base": r["is_base"]}
        for r in recs:
            k = r["kind"]
            if k == "prefix":
                out.append({"kind": "prefix", "name": r["name"], "value": frac_s(r["value"]), "symbol": r["symbol"], "aliases": r["aliases"]})
            elif k == "unit":
                out.append(unit(r))
            elif k == "dim":
                d = {"kind": "dim", "name": r["name"]}
                if r["ref"] is not None:
                    d["ref"] = [[a, frac_s(b)] for a, b in r["ref"].items()]
                out.append(d)
            elif k == "alias":
                out.append({"kind": "alias", "name": r["name"], "aliases": r["aliases"]})
            elif k == "group":
                out.append({"kind": "group", "name": r["name"], "using": r["using"],
                            "units": [unit(b) for b in r["body"] if b["kind"] == "unit"]})
        return out

    # ------------------------------------------------------------------ implementation
    def load_variant(self, c):
        import pint
        var = c["variant"]
        T = {"decimal": Decimal, "float": float}.get(var, Fraction)
        txt = c["text"]
        rnd = random.Random(c["seed"])
        lines = txt.splitlines()
        if var == "perm":
            head = [l for l in lines if not l.startswith(("@", " "))]
            tail = lines[len(head):]
            movable = [i for i, l in enumerate(head) if "=" in l]      # derived-dimension lines move too (forward references)
            perm = movable[:]
            rnd.shuffle(perm)
            new = list(head)
            for a, b in zip(movable, perm):
                new[b] = head[a]
            lines = new + tail
        if var == "layout":
            new = []
            for l in lines:
                if not l.startswith(("@", " ")) and "=" in l:
                    r = rnd.random()
                    if r < 0.3:
                        l = l.replace(" = ", "=")
                    elif r < 0.6:
                        l = l.replace(" = ", "    =  ")
                    if rnd.random() < 0.3:
                        l += "    # trailing comment"
                    if rnd.random() < 0.2:
                        new.append("")
                    if rnd.random() < 0.15:
                        new.append("# a comment line")
                new.append(l)
            lines = new
        tmp = None
        try:
            if var in ("file", "cache-cold", "cache-warm"):
                tmp = tempfile.mkdtemp(prefix="c10_")
                path = os.path.join(tmp, "defs.txt")
                with open(path, "w", encoding="utf-8") as fh:
                    fh.write("\n".join(lines) + "\n")
                if var == "file":
                    return pint.UnitRegistry(path, non_int_type=T)
                cdir = os.path.join(tmp, "cache")
                u = pint.UnitRegistry(path, non_int_type=T, cache_folder=cdir)
                if var == "cache-warm":
                    u = pint.UnitRegistry(path, non_int_type=T, cache_folder=cdir)
                return u
            if var == "define":
                u = pint.UnitRegistry(None, non_int_type=T)
                block = []
                for l in lines:
                    if block:
                        block.append(l)
                        if l.strip() == "@end":
                            u.define("\n".join(block))
                            block = []
                    elif l.startswith("@"):
                        block = [l]
                    elif l.strip():
                        u.define(l)
                u._build_cache()
                return u
            u = pint.UnitRegistry(None, non_int_type=T)
            u.load_definitions(lines)
            u._build_cache()
            return u
        finally:
            if tmp:
                shutil.rmtree(tmp, ignore_errors=True)

    def impl(self, c):
        k = c["kind"]
        u = regs.ureg("fraction")
        if k == "dkey":
            def run():
                d = u._units[c["s"]]
                conv = d.converter
                sc = conv.scale
                if isinstance(sc, float):
                    cj = {"kind": "irrational"}
                elif type(conv).__name__ == "OffsetConverter":
                    cj = {"kind": "offset", "scale": frac_s(Fraction(sc)), "offset": frac_s(Fraction(conv.offset))}
                elif type(conv).__name__ == "LogarithmicConverter":
                    if isinstance(conv.logbase, float) or isinstance(conv.logfactor, float):
                        cj = {"kind": "irrational"}
                    else:
                        cj = {"kind": "log", "scale": frac_s(Fraction(sc)), "logbase": frac_s(Fraction(conv.logbase)),
                              "logfactor": frac_s(Fraction(conv.logfactor))}
                else:
                    cj = {"kind": "scale", "scale": frac_s(Fraction(sc))}
                return {"name": d.name, "symbol": d.symbol, "aliases": list(d.aliases), "conv": cj,
                        "ref": sorted([a, frac_s(regs.to_frac(b))] for a, b in d.reference.items()), "is_base": d.is_base}
            return [capture(run)]
        if k == "pkey":
            def run():
                p = u._prefixes[c["s"]]
                return {"name": p.name, "symbol": p.symbol, "value": frac_s(Fraction(p.value)), "aliases": list(p.aliases)}
            return [capture(run)]
        if k == "dimkey":
            def run():
                d = u._dimensions[c["s"]]
                ref = getattr(d, "reference", None)
                return None if ref is None else sorted([a, frac_s(regs.to_frac(b))] for a, b in ref.items())
            return [capture(run)]
        if k == "tables":
            return [{"ok": {"units": sorted(u._units), "prefixes": sorted(u._prefixes), "dims": sorted(u._dimensions),
                            "base_units": sorted(u._base_units)}}]
        if k == "malformed":
            return []
        if k == "order":
            import pint
            logging.disable(logging.CRITICAL)
            try:
                try:
                    r = pint.UnitRegistry(None, non_int_type=Fraction)
                    r.load_definitions(list(c["lines"]))
                except Exception as exc:  # noqa: BLE001
                    return [{"load-error": type(exc).__name__}]
                res = []
                for key in c["keys"]:
                    d = r._units.get(key)
                    if d is None:
                        res.append(None)
                    else:
                        conv = d.converter
                        res.append([d.name, d.symbol, sorted(d.aliases), frac_s(Fraction(conv.scale)),
                                    frac_s(Fraction(getattr(conv, "offset", 0))),
                                    sorted([a, frac_s(regs.to_frac(b))] for a, b in d.reference.items())])
                return [res]
            finally:
                logging.disable(logging.NOTSET)
        logging.disable(logging.CRITICAL)
        try:
            reg_ = self.load_variant(c)
            sem = sem_of_registry(reg_, c["names"], c["spellings"], c.get("dims", []))
        except Exception as exc:  # noqa: BLE001
            return [{"load-error": type(exc).__name__ + ": " + str(exc)[:200]}]
        finally:
            logging.disable(logging.NOTSET)
        return [sem]

    def expect(self, c, mo):
        k = c["kind"]
        if k == "tables":
            o = mo[0]["ok"]
            return [{"ok": {kk: sorted(v) for kk, v in o.items()}}]
        if k == "order":
            if "ok" not in mo[0]:
                return [{"load-error": "model"}]
            res = []
            for r in mo[1:1 + len(c["keys"])]:
                if "ok" not in r:
                    res.append(None)
                else:
                    o = r["ok"]
                    cv = o["conv"]
                    res.append([o["name"], o["symbol"], sorted(o["aliases"]), cv.get("scale"), cv.get("offset", "0/1") if cv.get("kind") == "offset" else frac_s(Fraction(0)),
                                sorted(o["ref"])])
            return [res]
        if k != "gen":
            return mo
        # fold the model's answers into the same 'sem' shape
        sem = {}
        i = 1
        for n in c["names"]:
            r, d, info = mo[i], mo[i + 1], mo[i + 2]
            i += 3
            if "ok" in r and "ok" in d and "ok" in info:
                sem[n] = {"ok": {"f": r["ok"][0], "root": sorted(r["ok"][1]), "dim": sorted(d["ok"]),
                                 "symbol": info["ok"]["symbol"], "mult": info["ok"]["mult"]}}
            else:
                sem[n] = {"err": (r.get("err") or d.get("err") or info.get("err"))}
        for s in c["spellings"]:
            sem["name:" + s] = mo[i]
            i += 1
        for d in c.get("dims", []):
            sem["dimname:" + d] = {"ok": sorted(mo[i]["ok"])} if "ok" in mo[i] else mo[i]
            i += 1
        return [sem]

    def same(self, c, io, mo):
        k = c["kind"]
        if k == "malformed":
            return True
        if k == "order":
            if isinstance(io[0], dict) or isinstance(mo[0], dict):
                return isinstance(io[0], dict) and isinstance(mo[0], dict)
            return canon(io) == canon(mo)
        if k == "gen":
            if "load-error" in io[0]:
                return False
            isem, msem = io[0], mo[0]
            for key, mv in msem.items():
                iv = isem.get(key)
                if iv is None:
                    return False
                if "ok" in mv and isinstance(mv["ok"], dict):
                    if "ok" not in iv:
                        return False
                    for f in ("root", "dim", "symbol", "mult"):
                        if iv["ok"][f] != mv["ok"][f]:
                            return False
                    if c["variant"] not in ("decimal", "float") and iv["ok"]["f"] != mv["ok"]["f"]:
                        return False
                    if c["variant"] in ("decimal", "float") and iv["ok"]["f"] != "float":
                        a, b = Fraction(iv["ok"]["f"]), Fraction(mv["ok"]["f"])
                        if b != 0 and abs(a / b - 1) > Fraction(1, 10 ** 12):
                            return False
                elif "err" in mv:
                    if mv["err"] == "Inexact":
                        continue
                    if "err" not in iv:
                        return False
                else:
                    if canon(iv) != canon(mv):
                        return False
            return True
        if k == "dkey":
            i, m = io[0], mo[0]
            if "ok" in i and "ok" in m:
                a, b = dict(i["ok"]), dict(m["ok"])
                b["ref"] = sorted(b["ref"])
                if a["conv"].get("kind") == "irrational" or b["conv"].get("kind") == "irrational":
                    a.pop("conv"); b.pop("conv")
                return canon(a) == canon(b)
        return canon(io) == canon(mo)

    def nontrivial(self, c, io):
        if c["kind"] == "gen":
            return f"{c['file']}:{c['variant']}"
        if c["kind"] == "malformed":
            return "mal:" + c["label"]
        if c["kind"] == "order":
            return "order:" + "|".join(c["lines"])
        return c["kind"] + ":" + str(c.get("s"))

    # ------------------------------------------------------------------ oracle
    def define_path_probe(self):
        """the same definitions arriving through define() instead of the file: the default group holds the units that no @group
        block defines (recorded as a known finding: a unit defined later joins the group `root` only)"""
        import pint
        v = []
        lines = ["metre = [length] = m", "second = [time] = s", "@group G1", "    inchy = 0.0254 * metre", "@end",
                 "@system S1 using G1", "@end", "@defaults", "    group = GD", "    system = S1", "@end"]
        late = "smooty = 1.7018 * metre"
        try:
            with tempfile.TemporaryDirectory(prefix="c10_dp_") as d:
                f1, f2 = os.path.join(d, "with.txt"), os.path.join(d, "without.txt")
                open(f1, "w").write("\n".join(lines[:2] + [late] + lines[2:]) + "\n")
                open(f2, "w").write("\n".join(lines) + "\n")
                a = pint.UnitRegistry(f1, non_int_type=Fraction, cache_folder=None)
                b = pint.UnitRegistry(f2, non_int_type=Fraction, cache_folder=None)
                b.define(late)
            for q in ("GD members", "compatible units of metre"):
                def ans(r):
                    if q == "GD members":
                        return sorted(x for x in r.get_group("GD", False).members if not x.startswith("delta_"))
                    return sorted(str(x) for x in r.get_compatible_units("metre"))
                ga, gb = ans(a), ans(b)
                if ga != gb:
                    v.append(f"C10 [known finding F74] {q}: {ga} when the line `{late}` stands in the file, {gb} when it arrives "
                             f"through define() after the file was loaded")
        except Exception as exc:  # noqa: BLE001
            v.append(f"C10 define-path probe raised {type(exc).__name__}: {exc}")
        return v

    def system_rules_probe(self):
        """@system blocks with rules, as written: a base unit that is a power (are = 100 m**2), an inverse (hertz = 1 / s) or a
        multiple (yard) of a root unit, in the short form and in the `new:old` form - the same from a file, a list of lines and
        define() calls; exact in a Fraction registry"""
        import pint
        v = []
        lines = ["metre = [length] = m", "second = [time] = s", "gram = [mass] = g", "kilo- = 1000 = k-",
                 "are = 100 * metre ** 2", "hertz = 1 / second", "yard = 0.9144 * metre", "minute = 60 * second",
                 "newton = kilogram * metre / second ** 2",
                 "@group GL", "    furlong = 220 * yard", "@end",
                 "@system land using GL", "    are", "    hertz", "@end",
                 "@system yards using GL", "    yard", "@end",
                 "@system force using GL", "    newton:gram", "@end"]      # (rules of one system that depend on each other have no defined meaning)
        want = {("kilometre", "land"): (Fraction(100), {"are": Fraction(1, 2)}), ("minute", "land"): (Fraction(60), {"hertz": -1}),
                ("furlong", "land"): (Fraction(220 * 9144, 100000), {"are": Fraction(1, 2)}),
                ("kilometre", "yards"): (Fraction(10000000, 9144), {"yard": 1}), ("minute", "yards"): (Fraction(60), {"second": 1}),
                ("kilogram", "force"): (Fraction(1), {"newton": 1, "metre": -1, "second": 2}), ("furlong", "yards"): (Fraction(220), {"yard": 1})}
        try:
            with tempfile.TemporaryDirectory(prefix="c10_sr_") as d:
                fn = os.path.join(d, "defs.txt")
                open(fn, "w").write("\n".join(lines) + "\n")
                regs_ = {"file": pint.UnitRegistry(fn, non_int_type=Fraction, cache_folder=None),
                         "lines": pint.UnitRegistry(list(lines), non_int_type=Fraction)}
                dreg = pint.UnitRegistry(None, non_int_type=Fraction)
                block = []
                for ln in lines:
                    if ln.startswith("@") and not ln.startswith("@end"):
                        block = [ln]
                    elif block:
                        block.append(ln)
                        if ln.startswith("@end"):
                            dreg.define("\n".join(block))
                            block = []
                    else:
                        dreg.define(ln)
                regs_["define"] = dreg
            for path, r in regs_.items():
                for (unit, system), (wf, wu) in want.items():
                    try:
                        f, b = r.get_base_units(unit, system=system)
                        got = (Fraction(f), {k_: Fraction(e) for k_, e in b._units.items()})
                    except Exception as exc:  # noqa: BLE001
                        got = f"{type(exc).__name__}: {str(exc)[:80]}"
                    if got != (wf, wu):
                        v.append(f"C10 [{path}] base units of {unit} in the system {system}: {got}; as written: {wf} {wu}")
        except Exception as exc:  # noqa: BLE001
            v.append(f"C10 system-rules probe raised {type(exc).__name__}: {exc}")
        return v[:6]

    def shared_cache_probe(self):
        """one cache folder serving several definition sources (two line lists, a file and a line list, float and Fraction): every
        registry means what ITS definitions say, cold and warm"""
        import pint
        v = []
        A = ["foo = [length]", "baz = [time]", "bar = 2 foo", "qux = 5 foo"]
        B = ["foo = [length]", "baz = [time]", "bar = 3 baz"]
        C = ["foo = [length]", "baz = [time]", "bar = 7 foo", "quux = bar / baz"]
        want = {"A": (2, "foo"), "B": (3, "baz"), "C": (7, "foo")}
        try:
            with tempfile.TemporaryDirectory(prefix="c10_sc_") as d:
                cf = os.path.join(d, "cache")
                fC = os.path.join(d, "c.txt")
                open(fC, "w").write("\n".join(C) + "\n")
                for rnd in ("cold", "warm"):
                    for T in (float, Fraction):
                        for name, src in (("A", A), ("B", B), ("C", fC), ("B", list(B)), ("A", tuple(A))):
                            try:
                                u = pint.UnitRegistry(src, cache_folder=cf, non_int_type=T)
                                f, ru = u.get_root_units("bar")
                                got = (Fraction(f).limit_denominator(1000), str(ru))
                                ok_t = isinstance(u.Quantity("1.5 bar").magnitude, T)
                            except Exception as exc:  # noqa: BLE001
                                got, ok_t = type(exc).__name__, True
                            if got != want[name] or not ok_t:
                                v.append(f"C10 shared cache folder ({rnd}, {T.__name__}): the definitions {name} say bar = {want[name][0]} {want[name][1]}, "
                                         f"the registry built from them answers {got}{'' if ok_t else ' (numeric type lost)'}")
        except Exception as exc:  # noqa: BLE001
            v.append(f"C10 shared-cache probe raised {type(exc).__name__}: {exc}")
        # a file that @imports another one, loaded through a cache folder: after the IMPORTED file is edited (the importing file
        # unchanged) a new registry means what the files say now
        try:
            with tempfile.TemporaryDirectory(prefix="c10_imp_") as d:
                cf = os.path.join(d, "cache")
                main, inc = os.path.join(d, "main.txt"), os.path.join(d, "inc.txt")
                open(main, "w").write("foo = [length]\nbaz = [time]\n@import inc.txt\nquux = 2 bar\n")
                for T in (float, Fraction):
                    for body, want in (("bar = 2 foo\n", (4, "foo")), ("bar = 3 baz\n", (6, "baz")), ("bar = 5 foo\n", (10, "foo"))):
                        open(inc, "w").write(body)
                        for rnd in ("cold", "warm"):
                            try:
                                u = pint.UnitRegistry(main, cache_folder=cf, non_int_type=T)
                                f, ru = u.get_root_units("quux")
                                got = (Fraction(f).limit_denominator(1000), str(ru))
                            except Exception as exc:  # noqa: BLE001
                                got = type(exc).__name__
                            if got != want:
                                v.append(f"C10 cache folder + @import ({rnd}, {T.__name__}): the imported file now says {body.strip()!r} so quux = "
                                         f"{want[0]} {want[1]}, the registry answers {got}")
        except Exception as exc:  # noqa: BLE001
            v.append(f"C10 import-cache probe raised {type(exc).__name__}: {exc}")
        # two byte-identical files in different folders, each importing ITS OWN neighbour, loaded through one cache folder
        try:
            with tempfile.TemporaryDirectory(prefix="c10_imp2_") as d:
                cf = os.path.join(d, "cache")
                for sub, fac in (("a", 10), ("b", 35)):
                    os.makedirs(os.path.join(d, sub))
                    open(os.path.join(d, sub, "main.txt"), "w").write("foo = [length]\n@import sub.txt\n")
                    open(os.path.join(d, sub, "sub.txt"), "w").write(f"bar = {fac} * foo\n")
                for sub, fac in (("a", 10), ("b", 35), ("a", 10), ("b", 35)):
                    try:
                        got = Fraction(pint.UnitRegistry(os.path.join(d, sub, "main.txt"), cache_folder=cf).get_root_units("bar")[0])
                    except Exception as exc:  # noqa: BLE001
                        got = type(exc).__name__
                    if got != fac:
                        v.append(f"C10 one cache folder, identical files {sub}/main.txt importing their own sub.txt: {sub}/sub.txt says bar = {fac} foo, "
                                 f"the registry answers {got}")
        except Exception as exc:  # noqa: BLE001
            v.append(f"C10 import-location probe raised {type(exc).__name__}: {exc}")
        return v[:6]

    def oracle(self, c):
        import pint
        v = []
        if not getattr(self, "_define_probe_done", False):
            self._define_probe_done = True
            v += self.define_path_probe()
            v += self.shared_cache_probe()
            v += self.system_rules_probe()
        if c["kind"] == "pkey":
            # a prefix of the bundled files, as the independent reader sees its line: name, value, symbol ("_" = none), aliases
            P = regs.pools()
            u = regs.ureg("fraction")
            rec = next((p for k_, p in P.proj.prefix_keys if k_ == c["s"]), None)
            if rec is None:
                return v
            try:
                p = u._prefixes[c["s"]]
                got = (p.name, Fraction(p.value), p.symbol, sorted(p.aliases))
            except Exception as exc:  # noqa: BLE001
                return [f"C10 prefix {c['s']!r}: lookup raised {type(exc).__name__}"]
            want = (rec["name"], Fraction(rec["value"]) if not isinstance(rec["value"], regs.D.Irr) else got[1],
                    rec["symbol"] or rec["name"], sorted(rec["aliases"]))
            if got != want:
                v.append(f"C10 prefix {c['s']!r}: the registry holds (name, value, symbol, aliases) = {got}, its definition line says {want}")
            if rec["symbol"] is None and rec["name"]:
                # no symbol: the short form of a prefixed unit uses the prefix name
                try:
                    sym = u.get_symbol(rec["name"] + "meter")
                    if sym != rec["name"] + "m":
                        v.append(f"C10 prefix {rec['name']!r} has no symbol but get_symbol({rec['name'] + 'meter'!r}) = {sym!r}")
                except Exception:  # noqa: BLE001
                    pass
            return v
        if c["kind"] == "gen":
            logging.disable(logging.CRITICAL)
            try:
                try:
                    u = self.load_variant(c)
                except Exception as exc:  # noqa: BLE001
                    return [f"C10 file {c['file']} variant {c['variant']}: valid definitions failed to load: {type(exc).__name__}: {exc}"]
                proj = D.Project(D.read_lines(c["text"].splitlines()))
                for n in c["names"]:
                    try:
                        f, b = proj.root({n: Fraction(1)})
                        dim = proj.dimensionality({n: Fraction(1)})
                    except D.DefError:
                        continue
                    pf, pb = u.get_root_units(u.UnitsContainer({n: 1}), check_nonmult=False)
                    pd = {k: regs.to_frac(x) for k, x in u.get_dimensionality(u.UnitsContainer({n: 1})).items()}
                    if dict((k, regs.to_frac(x)) for k, x in pb._units.items()) != b or pd != dim:
                        v.append(f"C10 file {c['file']} [{c['variant']}] unit {n}: root units/dimensionality {dict(pb._units)}/{pd} "
                                 f"but the definitions say {b}/{dim}")
                    if not isinstance(f, D.Irr):
                        if c["variant"] in ("decimal", "float"):
                            if f != 0 and abs(Fraction(pf) / f - 1) > Fraction(1, 10 ** 12):
                                v.append(f"C10 file {c['file']} [{c['variant']}] unit {n}: factor {pf} but the definitions say {f}")
                            want_t = Decimal if c["variant"] == "decimal" else float
                            if not isinstance(pf, (want_t, int)):
                                v.append(f"C10 file {c['file']} [{c['variant']}] unit {n}: factor has type {type(pf).__name__}")
                        elif isinstance(pf, float) or Fraction(pf) != f:
                            v.append(f"C10 file {c['file']} [{c['variant']}] unit {n}: factor {pf!r} but the definitions say {f}")
                for d in c.get("dims", []):
                    try:
                        want_d = proj.dim_of_dims({d: Fraction(1)})
                    except D.DefError:
                        continue
                    try:
                        got_d = {k: regs.to_frac(x) for k, x in u.get_dimensionality(d).items()}
                    except Exception as exc:  # noqa: BLE001
                        got_d = type(exc).__name__
                    if got_d != want_d:
                        v.append(f"C10 file {c['file']} [{c['variant']}] derived dimension {d}: get_dimensionality gives {got_d} "
                                 f"but the definitions say {want_d}")
                # compatible-unit listings do not depend on the loading path either (they come from a table that is filled
                # when the registry's cache is built, or restored from the on-disk cache)
                ref = pint.UnitRegistry(None, non_int_type=Fraction)
                ref.load_definitions(c["text"].splitlines())
                ref._build_cache()
                for n in c["names"][:6]:
                    try:
                        got = sorted(str(x) for x in u.get_compatible_units(n, "root"))        # "root": no default-system filter
                        want = sorted(str(x) for x in ref.get_compatible_units(n, "root"))
                    except Exception as exc:  # noqa: BLE001
                        v.append(f"C10 file {c['file']} [{c['variant']}] compatible units of {n}: raised {type(exc).__name__}: {exc}")
                        continue
                    try:
                        dn = proj.dimensionality({n: Fraction(1)})
                        byreader = sorted(r_["name"] for r_ in proj.units if r_["name"] != n and proj.dimensionality({r_["name"]: Fraction(1)}) == dn) if dn else None
                    except D.DefError:
                        byreader = None
                    if got != want:
                        v.append(f"C10 file {c['file']} [{c['variant']}] compatible units of {n}: {got}, the same lines loaded as a list give {want}")
                    elif byreader is not None and [x for x in want if x != n and not x.startswith("delta_")] != [x for x in byreader if not x.startswith("delta_")]:
                        v.append(f"C10 file {c['file']} compatible units of {n}: {want}, the definitions give {byreader}")
                if c.get("ctx"):
                    # the context of the file: its parameter default and the constant of its rule are read in the
                    # registry's numeric type, and the rule converts as written
                    cx = c["ctx"]
                    T = {"decimal": Decimal, "float": float}.get(c["variant"], Fraction)
                    rec = next((r for r in proj.contexts if r["name"] == cx["name"]), None)
                    want = Fraction(3) * Fraction(cx["n"]) * Fraction(cx["k"])
                    if rec is None or {k_: Fraction(x) for k_, x in rec["defaults"].items()} != {"n": Fraction(cx["n"])}:
                        v.append(f"C10 file {c['file']}: the independent reader does not see the context as written: {rec}")
                    for nm in (cx["name"], cx["alias"]):
                        try:
                            got = u.Quantity(T(3), "metre").to("second", nm).magnitude
                        except Exception as exc:  # noqa: BLE001
                            v.append(f"C10 file {c['file']} [{c['variant']}] context {nm}: 3 metre -> second raised {type(exc).__name__}: {exc}")
                            continue
                        if not isinstance(got, (T, int)) or isinstance(got, bool):
                            v.append(f"C10 file {c['file']} [{c['variant']}] context {nm}: the result {got!r} has type {type(got).__name__}, "
                                     f"the registry's numeric type is {T.__name__}")
                        elif (Fraction(got) != want) if T is Fraction else (abs(Fraction(got) / want - 1) > Fraction(1, 10 ** 12)):
                            v.append(f"C10 file {c['file']} [{c['variant']}] context {nm}: 3 metre -> second gives {got!r}, the rule "
                                     f"value * n * {cx['k']} with the default n={cx['n']} gives {want}")
                        try:
                            dflt = u._contexts[nm].defaults["n"]
                            if not isinstance(dflt, (T, int)) or Fraction(dflt) != Fraction(cx["n"]):
                                v.append(f"C10 file {c['file']} [{c['variant']}] context {nm}: default n is {dflt!r} ({type(dflt).__name__}), written {cx['n']}")
                        except Exception as exc:  # noqa: BLE001
                            v.append(f"C10 file {c['file']} [{c['variant']}] context {nm}: defaults not readable: {type(exc).__name__}")
                if proj.defaults.get("group") and c["variant"] in ("file", "cache-cold", "cache-warm"):
                    # (defaults are applied when a registry is constructed from its definitions)
                    # the default group holds exactly the units that no @group block defines
                    ingroups = {b["name"] for g in proj.groups for b in g["body"] if b["kind"] == "unit"}
                    want = {r_["name"] for r_ in proj.units} - ingroups
                    try:
                        got = {x for x in u.get_group(proj.defaults["group"], False).members if not x.startswith("delta_")}
                        if got != {x for x in want if not x.startswith("delta_")}:
                            v.append(f"C10 file {c['file']} [{c['variant']}] default group {proj.defaults['group']}: members "
                                     f"{sorted(got)}, the units outside every @group block are {sorted(want)}")
                    except Exception as exc:  # noqa: BLE001
                        v.append(f"C10 file {c['file']} [{c['variant']}] default group: raised {type(exc).__name__}: {exc}")
                if proj.defaults.get("system") and c["variant"] in ("file", "cache-cold", "cache-warm"):
                    if u.default_system != proj.defaults["system"]:
                        v.append(f"C10 file {c['file']} [{c['variant']}] default system is {u.default_system!r}, the @defaults block says "
                                 f"{proj.defaults['system']!r}")
                for g in proj.groups:
                    want = {b["name"] for b in g["body"] if b["kind"] == "unit"}
                    for used in g["using"]:
                        want |= {b["name"] for gg in proj.groups if gg["name"] == used for b in gg["body"] if b["kind"] == "unit"}
                    got = set(u.get_group(g["name"], False).members)
                    if got != want:
                        v.append(f"C10 file {c['file']} [{c['variant']}] group {g['name']}: members {sorted(got)} != {sorted(want)}")
            finally:
                logging.disable(logging.NOTSET)
            return v
        if c["kind"] == "malformed":
            base = "metre = [length] = m\nsecond = [time] = s\nkelvin = [temperature] = K\n"
            txt = base + c["snippet"] + "\n"
            logging.disable(logging.CRITICAL)
            try:
                try:
                    u = pint.UnitRegistry(None)
                    u.load_definitions(txt.splitlines())
                    u._build_cache()
                except Exception:  # noqa: BLE001
                    return v       # raised at load time
                # loaded: every name the snippet introduces must fail on first use
                names = []
                for line in c["snippet"].splitlines():
                    line = line.strip()
                    if "=" in line and not line.startswith("@"):
                        names.append(line.split("=")[0].strip().rstrip("-"))
                silently = []
                for n in names:
                    try:
                        if n.startswith("["):
                            u.get_dimensionality(n)
                        else:
                            q = u.Quantity(1, n)
                            q.to_root_units()
                            q.dimensionality
                        silently.append(n)
                    except Exception:  # noqa: BLE001
                        pass
                if silently or not names:
                    v.append(f"C10 ill-formed definition ({c['label']}): {c['snippet']!r} was accepted "
                             f"{'and ' + str(silently) + ' is usable' if silently else 'silently'}")
            finally:
                logging.disable(logging.NOTSET)
        return v
