"""Shared helpers: real pint registries per configuration, spelling pools from the independent
definition reader, random compound units, generated definition files."""
from __future__ import annotations

import os
import sys
from decimal import Decimal
from fractions import Fraction

from .core import REPO, VERIF, frac_s

sys.path.insert(0, os.path.join(VERIF, "tools"))
import defreader as D  # noqa: E402

_REGS = {}
_PROJ = {}

TYPES = {"float": float, "fraction": Fraction, "decimal": Decimal}


def ureg(tname="fraction", **kw):
    import pint
    key = (tname, tuple(sorted(kw.items())))
    if key not in _REGS:
        _REGS[key] = pint.UnitRegistry(non_int_type=TYPES[tname], **kw)
    return _REGS[key]


def fresh(tname="fraction", **kw):
    import pint
    return pint.UnitRegistry(non_int_type=TYPES[tname], **kw)


def project():
    if "default" not in _PROJ:
        _PROJ["default"] = D.load_default(REPO)
    return _PROJ["default"]


def num(tname, q):
    q = Fraction(q)
    if tname == "fraction":
        return q
    if tname == "decimal":
        return Decimal(q.numerator) / Decimal(q.denominator)
    return q.numerator / q.denominator if q.denominator != 1 else float(q.numerator)


def to_frac(v):
    if isinstance(v, Fraction):
        return v
    if isinstance(v, int):
        return Fraction(v)
    if isinstance(v, Decimal):
        return Fraction(v)
    if isinstance(v, float):
        return Fraction(v)
    return Fraction(v)


class Pools:
    """name pools of the default registry as read by defreader"""

    def __init__(self):
        p = project()
        self.proj = p
        self.canonical = [u["name"] for u in p.units]
        self.mult = [u["name"] for u in p.units if u["conv"] == "scale"]
        self.rational = []      # multiplicative units with an exact rational root factor
        self.positive = []      # ... and a positive one (order / abs are only covariant for those)
        self.irrational = []
        self.root = {}
        for u in p.units:
            if u["conv"] != "scale":
                continue
            f, b = p.root({u["name"]: Fraction(1)})
            fr = self.uses_fractional_power(u["name"])
            if isinstance(f, D.Irr) or fr:
                self.irrational.append(u["name"])
            else:
                self.rational.append(u["name"])
                if f > 0:
                    self.positive.append(u["name"])
            self.root[u["name"]] = (f, b)
        self.nonmult = [u["name"] for u in p.units if u["conv"] != "scale"]
        self.spellings = {}     # canonical -> [spellings]
        for key, u in p.unit_by_key.items():
            self.spellings.setdefault(u["name"], []).append(key)
        self.prefix_keys = [k for k, _ in p.prefix_keys if k]
        self.by_dim = {}
        for n in self.mult:
            d = tuple(sorted(p.dimensionality({n: Fraction(1)}).items()))
            self.by_dim.setdefault(d, []).append(n)

    def uses_fractional_power(self, name, _seen=None):
        """does the expansion of `name` raise a scale to a non-integer power (pint -> float)?"""
        p = self.proj
        u = p.unit_by_key[name]

        def walk(units, depth=0):
            if depth > 100:
                return False
            for k, e in units.items():
                try:
                    pf, uu = p.resolve(k)
                except D.DefError:
                    continue
                if uu["is_base"]:
                    continue
                if e.denominator != 1:
                    return True
                if walk(uu["ref"], depth + 1):
                    return True
            return False
        if isinstance(u["scale"], D.Irr) or u.get("fracpow"):
            return True

        def walk2(units, depth=0):
            if depth > 100:
                return False
            for k in units:
                try:
                    pf, uu = p.resolve(k)
                except D.DefError:
                    continue
                if uu.get("fracpow") or isinstance(uu["scale"], D.Irr):
                    return True
                if not uu["is_base"] and walk2(uu["ref"], depth + 1):
                    return True
            return False
        return walk(u["ref"]) or walk2(u["ref"])

    def spelling(self, rng, canonical, allow_prefix=True, allow_plural=True):
        """a random accepted spelling of a multiplicative unit: name/alias/symbol, optionally
        prefixed and/or pluralised; returns (string, prefix_value)"""
        p = self.proj
        s = rng.choice(self.spellings[canonical])
        r = rng.random()
        if allow_prefix and r < 0.35:
            pk = rng.choice(self.prefix_keys)
            cand = pk + s
            try:
                pf, uu = p.resolve(cand)
            except D.DefError:
                return s
            if uu["name"] == canonical and pf is not None and cand not in p.unit_by_key:
                s = cand
        if allow_plural and rng.random() < 0.15 and len(s) > 1:
            cand = s + "s"
            try:
                pf, uu = p.resolve(cand)
                if uu["name"] == canonical and cand not in p.unit_by_key:
                    s = cand
            except D.DefError:
                pass
        return s

    def compound(self, rng, pool, nmax=4, exps=(-3, -2, -1, 1, 2, 3), frac_prob=0.0, spell=True):
        n = rng.randint(1, nmax)
        out = {}
        for _ in range(n):
            c = rng.choice(pool)
            s = self.spelling(rng, c) if spell else c
            e = Fraction(rng.choice(exps))
            if frac_prob and rng.random() < frac_prob:
                e = Fraction(rng.choice([1, -1, 3]), 2)
            if s in out:
                continue
            out[s] = e
        return out


_POOLS = []


def pools():
    if not _POOLS:
        _POOLS.append(Pools())
    return _POOLS[0]


def uc_list(d):
    return [[k, frac_s(v)] for k, v in d.items()]


def uc_dict(items):
    return {k: Fraction(v) for k, v in items}


def pint_uc(reg, items, tname="fraction", canonical=False):
    """a UnitsContainer of `reg` with the spellings as keys and exponents in the registry's type;
    canonical=True resolves every spelling with the public `get_name` first (what parse_units does)"""
    if canonical:
        ret = reg.UnitsContainer({})
        for k, v in items:
            q = Fraction(v)
            cname = reg.get_name(k)
            if cname:
                ret = ret.add(cname, int(q) if q.denominator == 1 else num(tname, q))
        return ret
    d = {}
    for k, v in items:
        q = Fraction(v)
        d[k] = int(q) if q.denominator == 1 else num(tname, q)
    return reg.UnitsContainer(d)
