"""C03 — arithmetic results do not depend on the units used to express the operands."""
from __future__ import annotations

import copy
import operator
from fractions import Fraction

from . import regs
from .core import Property, capture, frac_s, canon, err_name
from .regs import uc_list, uc_dict

BINOPS = ["add", "sub", "mul", "div", "floordiv", "mod", "divmod", "eq", "lt", "le", "gt", "ge"]
NUM_LEFT = ["rsub", "rtruediv", "rfloordiv", "rmod"]
PYOP = {"add": operator.add, "sub": operator.sub, "mul": operator.mul, "div": operator.truediv,
        "floordiv": operator.floordiv, "mod": operator.mod, "divmod": divmod, "eq": operator.eq,
        "lt": operator.lt, "le": operator.le, "gt": operator.gt, "ge": operator.ge, "pow": operator.pow}
IOP = {"add": operator.iadd, "sub": operator.isub, "mul": operator.imul, "div": operator.itruediv,
       "floordiv": operator.ifloordiv, "mod": operator.imod, "pow": operator.ipow}


def qj(q):
    return {"m": frac_s(Fraction(q.magnitude)), "u": sorted([k, frac_s(regs.to_frac(v))] for k, v in q._units.items())}


def res_j(r):
    if isinstance(r, tuple):
        return [res_j(x) for x in r]
    if isinstance(r, bool):
        return r
    if hasattr(r, "_units"):
        if isinstance(r.magnitude, float):
            return {"float": True}
        return qj(r)
    if isinstance(r, (int, Fraction)):
        return {"m": frac_s(Fraction(r)), "u": []}
    return {"type": type(r).__name__}


class Check(Property):
    ID = "C03"
    PROPS_FILE = "PintModel/Props/C03.lean"
    MODULE = "PintModel.Props.C03"
    EXTRA_LEAN_FILES = ["PintModel/Proofs/QtyLemmas.lean"]
    RULE = ("binary and unary operations between exact (Fraction) quantities over compound rational units of the "
            "default registry; the right operand is a compatible quantity in other units, an incompatible quantity "
            "or a bare number; every case is also evaluated with both operands re-expressed in other compatible "
            "units (covariance oracle), in its in-place form (object arrays) and its reflected form; random "
            "expression trees of depth <= 3 under two unit environments; non-trivial = distinct (op, operands) "
            "whose operands are in different units")
    PARTIAL = ["NaN/inf operands, non-integer powers and float rounding are outside the exact model",
               "NumPy broadcasting in the in-place twins is exercised by the oracle only"]

    def rand_qty(self, rng, P, dim_like=None):
        """-> (mag Fraction, {canonical name: exp})"""
        if dim_like is None:
            r = rng.random()
            if r < 0.15:
                u = {rng.choice(["percent", "radian", "count", "ppm", "bit"]): Fraction(1)}
                if rng.random() < 0.3:
                    u = {}
            else:
                u = P.compound(rng, P.positive, nmax=2, exps=(-2, -1, 1, 1, 2), spell=False)
        else:
            u = {}
            for k, e in dim_like.items():
                d = tuple(sorted(P.proj.dimensionality({k: Fraction(1)}).items()))
                alts = [z for z in P.by_dim.get(d, []) if z in P.positive] or [k]
                alt = rng.choice(alts)
                if rng.random() < 0.3:
                    pk = rng.choice(["kilo", "milli", "micro", "mega", "centi"])
                    if P.proj.unit_by_key[alt]["conv"] == "scale" and (pk + alt) not in P.proj.unit_by_key:
                        alt = pk + alt
                u[alt] = u.get(alt, Fraction(0)) + e
            u = {k: v for k, v in u.items() if v != 0}
        m = Fraction(rng.choice([0, 1, -1, 2, 3, 5, 7, -7, 12, 100]), rng.choice([1, 1, 2, 3, 4]))
        return m, u

    def cases(self):
        P = regs.pools()
        rng = self.rng
        out = []
        n = 2500 if self.tier == "quick" else 20000
        for _ in range(n):
            am, au = self.rand_qty(rng, P)
            r = rng.random()
            auto = False
            if r < 0.55:
                bm, bu = self.rand_qty(rng, P, dim_like=au)
                kind = "compatible"
            elif r < 0.75:
                bm, bu = self.rand_qty(rng, P)
                kind = "random"
            else:
                bm, bu = Fraction(rng.choice([0, 0, 1, 2, -3, 5]), rng.choice([1, 1, 2])), None
                kind = "bare number"
            f = rng.choice(BINOPS + (NUM_LEFT if bu is None else []) + ["pow", "neg", "abs"])
            a = {"m": frac_s(am), "u": uc_list(au)}
            op = {"op": "q", "f": f, "a": a, "auto": auto}
            c = {"kind": kind, "f": f, "a": a}
            if f in ("neg", "abs"):
                pass
            elif f == "pow":
                e = Fraction(rng.choice([0, 1, 2, 3, -1, -2]))
                op["x"] = frac_s(e)
                c["x"] = frac_s(e)
            elif f in NUM_LEFT:
                op["x"] = frac_s(bm)
                c["x"] = frac_s(bm)
            elif bu is None:
                op["b"] = {"num": frac_s(bm)}
                c["b"] = {"num": frac_s(bm)}
            else:
                b = {"m": frac_s(bm), "u": uc_list(bu)}
                op["b"] = b
                c["b"] = b
            c["ops"] = [op]
            self.bump(f)
            self.bump("kind." + kind)
            out.append(c)
        # absolute temperatures written on offset or absolute scales: equality, order and differences
        temps = ["kelvin", "degree_Celsius", "degree_Fahrenheit", "degree_Rankine", "degree_Reaumur"]
        tm = [Fraction(0), Fraction(0), Fraction(27315, 100), Fraction(-40), Fraction(100), Fraction(45967, 100), Fraction(32)]
        for _ in range(300 if self.tier == "quick" else 3000):
            f = rng.choice(["eq", "eq", "lt", "ge", "sub"])
            a = {"m": frac_s(rng.choice(tm)), "u": [[rng.choice(temps), "1/1"]]}
            b = {"m": frac_s(rng.choice(tm)), "u": [[rng.choice(temps), "1/1"]]}
            self.bump("kind.temperature")
            out.append({"kind": "temperature", "f": f, "a": a, "b": b,
                        "ops": [{"op": "q", "f": f, "a": a, "b": b, "auto": False}]})
        # quantities of different dimensionality that an ACTIVE context can convert into each other: adding, subtracting, ordering,
        # floor-dividing and taking the remainder is still a DimensionalityError (the model has no contexts: same expected answer)
        CTX = [("sp", "nanometer", "terahertz"), ("sp", "terahertz", "electron_volt"), ("sp", "meter", "hertz"),
               ("boltzmann", "kelvin", "joule"), ("energy", "joule", "gram"), ("textile", "tex", "number_meter")]
        for _ in range(60 if self.tier == "quick" else 600):
            cx, ua, ub = rng.choice(CTX)
            if rng.random() < 0.5:
                ua, ub = ub, ua
            f = rng.choice(["add", "sub", "lt", "ge", "le", "gt", "floordiv", "mod", "divmod"])
            a = {"m": frac_s(Fraction(rng.randint(1, 9), rng.choice([1, 2]))), "u": [[ua, "1/1"]]}
            b = {"m": frac_s(Fraction(rng.randint(1, 9))), "u": [[ub, "1/1"]]}
            self.bump("kind.active-context")
            out.append({"kind": "context", "ctx": cx, "inplace": rng.random() < 0.3 and f in ("add", "sub", "floordiv", "mod"), "f": f, "a": a, "b": b,
                        "ops": [{"op": "q", "f": f, "a": a, "b": b, "auto": False}]})
        return out

    # ------------------------------------------------------------------ helpers on the real code
    def mkq(self, u, j):
        return u.Quantity(Fraction(j["m"]), u.Unit(regs.pint_uc(u, j["u"], canonical=True)))

    def operand(self, u, c):
        b = c.get("b")
        if b is None:
            return None
        if "num" in b:
            x = Fraction(b["num"])
            return int(x) if x.denominator == 1 else x
        return self.mkq(u, b)

    def apply(self, u, c, a=None, b=None):
        a = self.mkq(u, c["a"]) if a is None else a
        f = c["f"]
        if f == "neg":
            return -a
        if f == "abs":
            return abs(a)
        if f == "pow":
            e = Fraction(c["x"])
            return a ** int(e)
        if f in NUM_LEFT:
            x = Fraction(c["x"])
            x = int(x) if x.denominator == 1 else x
            return {"rsub": operator.sub, "rtruediv": operator.truediv, "rfloordiv": operator.floordiv,
                    "rmod": operator.mod}[f](x, a)
        b = self.operand(u, c) if b is None else b
        return PYOP[f](a, b)

    def impl(self, c):
        u = regs.ureg("fraction")
        if c.get("kind") == "context":
            def run():
                with u.context(c["ctx"]):
                    if c["inplace"]:
                        return res_j(IOP[c["f"]](self.mkq(u, c["a"]), self.mkq(u, c["b"])))
                    return res_j(self.apply(u, c))
            return [capture(run)]
        return [capture(lambda: res_j(self.apply(u, c)))]

    def same(self, c, io, mo):
        i, m = io[0], mo[0]
        if m.get("err") == "Inexact":
            self.bump("inexact (not compared)")
            return True
        if "ok" in i and "ok" in m:
            return canon(self.norm(i["ok"])) == canon(self.norm(m["ok"]))
        return canon(i) == canon(m)

    def norm(self, r):
        if isinstance(r, list):
            return [self.norm(x) for x in r]
        if isinstance(r, dict) and "u" in r:
            return {"m": r["m"], "u": sorted(r["u"])}
        return r

    def nontrivial(self, c, io):
        b = c.get("b")
        if b is not None and "u" in b and sorted(b["u"]) != sorted(c["a"]["u"]):
            return canon([c["f"], c["a"], b])
        if b is None or "num" in (b or {}):
            return canon([c["f"], c["a"], b, c.get("x")])
        return None

    # ------------------------------------------------------------------ oracle: covariance on the real code
    def reexpress(self, u, q, rng, offset_ok=False):
        """the same physical quantity in other compatible units (exact); offset temperature scales are
        alternatives only for the operations whose offset calculus is defined for a lone temperature
        (ordering, == between quantities): abs, %, //, * and comparison with a bare number are not
        functions of the physical value on an offset scale (that calculus is C06's subject)"""
        P = regs.pools()
        tgt = {}
        temps = ["kelvin", "degree_Celsius", "degree_Fahrenheit", "degree_Rankine", "degree_Reaumur"] if offset_ok \
            else ["kelvin", "degree_Rankine"]
        if len(q._units) == 1 and next(iter(q._units)) in temps and next(iter(q._units.values())) == 1:
            return q.to(u.Unit(u.UnitsContainer({rng.choice(temps): 1})))
        for k, e in q._units.items():
            e = regs.to_frac(e)
            pf, uu = P.proj.resolve(k)
            d = tuple(sorted(P.proj.dimensionality({uu["name"]: Fraction(1)}).items()))
            alts = [z for z in P.by_dim.get(d, []) if z in P.positive] or [uu["name"]]
            alt = rng.choice(alts)
            tgt[alt] = tgt.get(alt, Fraction(0)) + e
        tgt = {k: (int(v) if v.denominator == 1 else v) for k, v in tgt.items() if v != 0}
        return q.to(u.Unit(u.UnitsContainer(tgt)))

    def phys(self, r):
        if isinstance(r, tuple):
            return [self.phys(x) for x in r]
        if hasattr(r, "to_root_units"):
            rr = r.to_root_units()
            return [frac_s(Fraction(rr.magnitude)), sorted([k, frac_s(regs.to_frac(v))] for k, v in rr.dimensionality.items())]
        if isinstance(r, bool):
            return r
        return frac_s(Fraction(r))

    def fixed_probes(self):
        """run once per check: (1) an in-place product / quotient leaves the OTHER operand alone (array target, scalar other, also
        an offset unit in autoconvert mode); (2) int magnitudes in the Fraction registry: reflected and in-place true division
        agree exactly with the plain form"""
        import numpy as np
        import pint
        v = []
        for kw, b_units in (({}, "centimeter"), ({"autoconvert_offset_to_baseunit": True}, "degree_Celsius"),
                            ({"autoconvert_offset_to_baseunit": True}, "kelvin")):
            r = regs.ureg("float", **kw)
            for name, op in (("*=", operator.imul), ("/=", operator.itruediv)):
                a = r.Quantity(np.array([1.0, 2.0]), "meter")
                b = r.Quantity(5.0, b_units)
                try:
                    op(a, b)
                except Exception:  # noqa: BLE001
                    continue
                if b.magnitude != 5.0 or str(b.units) != b_units:
                    v.append(f"C03 in-place {name} with the operand Quantity(5.0, {b_units!r}) {kw}: the operand now reads {b!r}")
        f = regs.ureg("fraction")
        for n in (3, 7):
            want = Fraction(1, n)
            cands = {"1 / Q(n, m)": lambda: (1 / f.Quantity(n, "meter")).magnitude,
                     "Q(1, m) / n": lambda: (f.Quantity(1, "meter") / n).magnitude,
                     "Q(1, m) / Q(n, s)": lambda: (f.Quantity(1, "meter") / f.Quantity(n, "second")).magnitude}

            def idiv_num():
                q = f.Quantity(1, "meter")
                q /= n
                return q.magnitude

            def idiv_q():
                q = f.Quantity(1, "meter")
                q /= f.Quantity(n, "second")
                return q.magnitude
            cands["q /= n"] = idiv_num
            cands["q /= Q(n, s)"] = idiv_q
            for label, fn in cands.items():
                try:
                    got = fn()
                except Exception as exc:  # noqa: BLE001
                    v.append(f"C03 Fraction registry, int magnitudes, {label} (n={n}): raised {type(exc).__name__}")
                    continue
                if isinstance(got, float) or got != want:
                    v.append(f"C03 Fraction registry, int magnitudes, {label} (n={n}): magnitude {got!r}, the other forms give exactly {want}")
        # (3) the plain and reflected forms modify nothing: array operands (delta units, scaled units, mixed with scalars) read the
        # same before and after, and the same expression evaluated twice gives the same result
        r = regs.ureg("float")
        pairs = [(("delta_degree_Fahrenheit", [9.0, 18.0, 27.0]), ("kelvin", 1.0)), (("kelvin", 1.0), ("delta_degree_Fahrenheit", [9.0, 18.0, 27.0])),
                 (("delta_degree_Celsius / minute", [1.0, 2.0]), ("kelvin / second", 0.5)), (("delta_degree_Celsius", [1.0, 2.0]), ("millikelvin", 250.0)),
                 (("centimeter", [150.0, 250.0]), ("meter", [1.0, 2.0])), (("meter", 2.0), ("inch", [10.0, 20.0])),
                 (("kilometer / hour", [36.0, 72.0]), ("meter / second", 3.0)), (("gram", [1.0, 2.0]), ("pound", [1.0, 3.0]))]
        for (ua, ma), (ub, mb) in pairs:
            for name, op in (("+", operator.add), ("-", operator.sub), ("*", operator.mul), ("/", operator.truediv), ("//", operator.floordiv),
                             ("%", operator.mod), ("<", operator.lt), ("==", operator.eq)):
                a = r.Quantity(np.array(ma) if isinstance(ma, list) else ma, ua)
                b = r.Quantity(np.array(mb) if isinstance(mb, list) else mb, ub)
                snap = (np.array(a.magnitude, copy=True), str(a.units), np.array(b.magnitude, copy=True), str(b.units))
                try:
                    first = op(a, b)
                except Exception:  # noqa: BLE001
                    first = None
                now = (np.asarray(a.magnitude), str(a.units), np.asarray(b.magnitude), str(b.units))
                if not (np.array_equal(snap[0], now[0]) and snap[1] == now[1] and np.array_equal(snap[2], now[2]) and snap[3] == now[3]):
                    v.append(f"C03 {ma} {ua} {name} {mb} {ub}: the plain form changed an operand: left now {a!r}, right now {b!r}")
                    continue
                if first is not None:
                    try:
                        second = op(a, b)
                        fm, sm = (np.asarray(getattr(x, "magnitude", x), dtype=float) for x in (first, second))
                        if not np.allclose(fm, sm, rtol=1e-12, atol=0, equal_nan=True):
                            v.append(f"C03 {ma} {ua} {name} {mb} {ub}: evaluated twice gives {first!r} then {second!r}")
                    except Exception:  # noqa: BLE001
                        pass
        # (4) in-place + and - agree with the plain forms on SCALAR magnitudes too: temperatures on offset scales, deltas, absolute
        # scales, scaled units (same value and unit, or the same error)
        f = regs.ureg("fraction")
        names = ["kelvin", "degree_Celsius", "degree_Fahrenheit", "degree_Rankine", "delta_degree_Celsius", "delta_degree_Fahrenheit",
                 "meter", "inch"]
        for ua in names:
            for ub in names:
                for name, op, iop in (("+", operator.add, operator.iadd), ("-", operator.sub, operator.isub)):
                    def out(fn):
                        try:
                            q = fn()
                            return ("ok", Fraction(q.magnitude), str(q.units))
                        except Exception as exc:  # noqa: BLE001
                            return ("err", type(exc).__name__)
                    plain = out(lambda: op(f.Quantity(Fraction(20), ua), f.Quantity(Fraction(10), ub)))
                    inpl = out(lambda: iop(f.Quantity(Fraction(20), ua), f.Quantity(Fraction(10), ub)))
                    if plain != inpl:
                        v.append(f"C03 20 {ua} {name} 10 {ub}: the plain form gives {plain}, the in-place form {inpl}")
        # (5) bare numbers with scaled dimensionless quantities (percent, ppm, mm/m): every in-place form agrees with its plain form
        # (the quantity is read as the pure number it is), for scalar and array magnitudes
        fl = regs.ureg("float")
        for un, mag in (("percent", 250.0), ("ppm", 3.0e6), ("millimeter / meter", 2500.0), ("percent", [250.0, 50.0]), ("dimensionless", 2.5)):
            for name, op, iop in (("//", operator.floordiv, operator.ifloordiv), ("%", operator.mod, operator.imod), ("+", operator.add, operator.iadd),
                                  ("-", operator.sub, operator.isub), ("*", operator.mul, operator.imul), ("/", operator.truediv, operator.itruediv)):
                for num in (2, 0.75):
                    def mk():
                        return fl.Quantity(np.array(mag) if isinstance(mag, list) else mag, un)

                    def out2(fn):
                        try:
                            q = fn().to_root_units()
                            return ("ok", np.round(np.asarray(q.magnitude, dtype=float), 9).tolist(), str(q.units))
                        except Exception as exc:  # noqa: BLE001
                            return ("err", type(exc).__name__)
                    plain, inpl = out2(lambda: op(mk(), num)), out2(lambda: iop(mk(), num))
                    if plain != inpl:
                        v.append(f"C03 {mag} {un} {name} {num}: the plain form gives {plain}, the in-place form {inpl}")
        # (6) ordering a dimensionless quantity on a logarithmic scale against a bare number: as for the same pure number written
        # without a unit (a result, never an error the plain number does not give)
        for db, pure in ((-3.0, 10 ** -0.3), (0.0, 1.0), (10.0, 10.0)):
            for num in (0, 0.0, 0.5, 1, 20.0, float("nan")):
                for name, op in (("<", operator.lt), ("<=", operator.le), (">", operator.gt), (">=", operator.ge)):
                    def out3(fn):
                        try:
                            return ("ok", bool(fn()))
                        except Exception as exc:  # noqa: BLE001
                            return ("err", type(exc).__name__)
                    a_, b_ = out3(lambda: op(fl.Quantity(db, "decibel"), num)), out3(lambda: op(fl.Quantity(pure, ""), num))
                    r_, s_ = out3(lambda: op(num, fl.Quantity(db, "decibel"))), out3(lambda: op(num, fl.Quantity(pure, "")))
                    if a_ != b_ or r_ != s_:
                        v.append(f"C03 {db} dB {name} {num}: {a_} / reflected {r_}; the same number without a unit ({pure:.4g}): {b_} / {s_}")
        # (7) array magnitudes, in-place + and - while a context is active: across dimensions still a DimensionalityError (the
        # context converts on request only), and within one dimension the same result as the plain form and as with no context
        for cx, ua, ub in (("sp", "nanometer", "terahertz"), ("sp", "terahertz", "nanometer"), ("boltzmann", "kelvin", "joule"),
                           ("sp", "nanometer", "micrometer"), ("sp", "degree_Celsius", "delta_degree_Celsius"), ("energy", "kelvin", "delta_degree_Fahrenheit")):
            for name, iop_, pop_ in (("+=", operator.iadd, operator.add), ("-=", operator.isub, operator.sub)):
                def out4(fn):
                    try:
                        q = fn()
                        return ("ok", [round(float(x), 9) for x in q.magnitude], str(q.units))
                    except Exception as exc:  # noqa: BLE001
                        return ("err", type(exc).__name__)

                def mk():
                    return fl.Quantity(np.array([500.0, 600.0]), ua), fl.Quantity(np.array([1.0, 2.0]), ub)
                with fl.context(cx):
                    inpl, plain = out4(lambda: iop_(*mk())), out4(lambda: pop_(*mk()))
                outside = out4(lambda: pop_(*mk()))
                same_dim = fl.get_dimensionality(ua) == fl.get_dimensionality(ub)
                if not same_dim and inpl != ("err", "DimensionalityError"):
                    v.append(f"C03 [500, 600] {ua} {name} [1, 2] {ub} inside the active context {cx!r} gives {inpl}: quantities of different "
                             f"dimensionality must raise DimensionalityError")
                elif inpl != plain or plain != outside:
                    v.append(f"C03 [500, 600] {ua} {name} [1, 2] {ub}: in place inside the context {cx!r} {inpl}, plain form inside {plain}, "
                             f"plain form with no context {outside}")
        return v[:12]

    def oracle(self, c):
        import numpy as np
        u = regs.ureg("fraction")
        if not getattr(self, "_fixed_done", False):
            self._fixed_done = True
            fv = self.fixed_probes()
            if fv:
                return fv
        if c.get("kind") == "context":
            r = self.impl(c)[0]
            if r.get("err") != "DimensionalityError":
                return [f"C03 {c['f']}{' (in place)' if c['inplace'] else ''} a={c['a']} b={c['b']} inside the active context {c['ctx']!r}: "
                        f"quantities of different dimensionality give {r} instead of DimensionalityError"]
            return []
        rng = self.rng
        v = []
        f = c["f"]
        tag = f"C03 {f} a={c['a']} b={c.get('b')} x={c.get('x')}"
        try:
            a = self.mkq(u, c["a"])
            b = self.operand(u, c)
        except Exception as exc:  # noqa: BLE001
            return [f"{tag}: building operands raised {type(exc).__name__}: {exc}"]
        sa = (a.magnitude, dict(a._units))
        sb = (b.magnitude, dict(b._units)) if hasattr(b, "_units") else None

        def run(fn):
            try:
                return ("ok", fn())
            except Exception as exc:  # noqa: BLE001
                return ("err", err_name(exc))
        r1 = run(lambda: self.apply(u, c, a, b))
        # operands untouched
        if (a.magnitude, dict(a._units)) != sa or (sb is not None and (b.magnitude, dict(b._units)) != sb):
            v.append(f"{tag}: an operand was modified by the plain form")
        # covariance
        try:
            off = f in ("lt", "le", "gt", "ge", "eq") and hasattr(b, "_units")     # + and - of an absolute offset temperature and another absolute one are refused (C06)
            a2 = self.reexpress(u, a, rng, off)
            b2 = self.reexpress(u, b, rng, off) if hasattr(b, "_units") else b
        except Exception as exc:  # noqa: BLE001
            return v + [f"{tag}: re-expressing an operand raised {type(exc).__name__}: {exc}"]
        r2 = run(lambda: self.apply(u, c, a2, b2))
        if r1[0] != r2[0]:
            v.append(f"{tag}: {r1} with these units but {r2} with a={a2!r} b={b2!r}")
        elif r1[0] == "err":
            if r1[1] != r2[1]:
                v.append(f"{tag}: error kind {r1[1]} vs {r2[1]} after re-expressing the operands")
        else:
            try:
                p1, p2 = self.phys(r1[1]), self.phys(r2[1])
                if canon(p1) != canon(p2):
                    v.append(f"{tag}: result {r1[1]!r} but {r2[1]!r} (physically different) with a={a2!r} b={b2!r}")
            except Exception as exc:  # noqa: BLE001
                v.append(f"{tag}: comparing results raised {type(exc).__name__}: {exc}")
        # dimension errors and bare numbers
        if hasattr(b, "_units") and f in ("add", "sub", "lt", "le", "gt", "ge"):
            if a.dimensionality != b.dimensionality and r1 != ("err", "DimensionalityError"):
                v.append(f"{tag}: different dimensionality but the result is {r1}")
        if f in ("add", "sub") and b is not None and not hasattr(b, "_units"):
            allowed = a.dimensionless or b == 0
            if allowed != (r1[0] == "ok"):
                v.append(f"{tag}: bare number operand {'accepted' if r1[0] == 'ok' else 'refused: ' + str(r1)} "
                         f"(dimensionless={a.dimensionless}, number={b})")
        # in-place twin on array magnitudes: same result, only the target changes
        if f in IOP and r1[0] == "ok" and (hasattr(b, "_units") or f != "pow") and rng.random() < 0.5:
            try:
                arr = np.array([a.magnitude, a.magnitude * 2], dtype=object)
                x = u.Quantity(arr, a.units)
                bb = copy.copy(b) if hasattr(b, "_units") else (int(Fraction(c["x"])) if f == "pow" else b)
                if f == "pow":
                    bb = int(Fraction(c["x"]))
                y = IOP[f](x, bb)
                plain0 = PYOP[f](u.Quantity(a.magnitude, a.units), bb)
                if hasattr(y, "_units"):
                    first = u.Quantity(y.magnitude[0], y.units)
                    if canon(self.phys(first)) != canon(self.phys(plain0)):
                        v.append(f"{tag}: in-place form gives {first!r}, plain form {plain0!r}")
                if hasattr(b, "_units") and (bb.magnitude, dict(bb._units)) != sb:
                    v.append(f"{tag}: the in-place form modified its right operand")
            except Exception as exc:  # noqa: BLE001
                if type(exc).__name__ not in ("TypeError", "AttributeError", "ZeroDivisionError"):
                    v.append(f"{tag}: in-place form raised {type(exc).__name__}: {exc} while the plain form succeeded")
        return v
