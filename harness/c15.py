"""C15 — unit-rewriting helpers preserve the physical quantity."""
from __future__ import annotations

import math
import warnings
from fractions import Fraction

from . import regs
from .core import Property, capture, frac_s, canon
from .regs import uc_list

SYSTEMS = ["mks", "cgs", "imperial", "US", "SI"]
DEC_PREFIXES = ["kilo", "milli", "micro", "mega", "nano", "giga", "centi", "hecto", "deci", "deca", "pico", "tera",
                "quecto", "quetta", "yotta", "yocto"]
BIN_PREFIXES = ["kibi", "mebi"]
F13_TAG = "[known float-log10 boundary F13]"
F32_TAG = "[known float exponent arithmetic F32]"


def qj(q):
    return {"m": frac_s(Fraction(q.magnitude)), "u": sorted([k, frac_s(regs.to_frac(v))] for k, v in q._units.items())}


class Check(Property):
    ID = "C15"
    PROPS_FILE = "PintModel/Props/C15.lean"
    MODULE = "PintModel.Props.C15"
    EXTRA_LEAN_FILES = ["PintModel/Proofs/RewriteLemmas.lean"]
    RULE = ("random exact quantities over the bundled registry (1-4 units, exponents -3..3, magnitudes over 60 decades, "
            "both signs, prefixed names, a few offset/dimensionless/ambiguous names, exact powers of 1000 and values "
            "next to them): to_root_units, to_base_units (default systems mks/cgs/imperial/US/SI), to_reduced_units, "
            "to_compact (with and without a unit argument), to_preferred, their ito_ twins, and * and / under "
            "auto_reduce_dimensions; non-trivial = distinct quantities with at least two units or a prefix")
    PARTIAL = ["to_compact is modelled with an exact floor(log10|m|); pint uses the float math.log10 (finding F13 lists the "
               "inputs within one ulp of a power of 1000 on which they differ)",
               "to_preferred's integer programme (mip) is not modelled: value/dimension preservation and the in-place twin "
               "are checked by the oracle only",
               "float, Decimal and uncertain magnitudes are checked by the oracle numerically (not by the model)"]

    # ------------------------------------------------------------------ generation
    def rand_units(self, rng, P):
        r = rng.random()
        items = P.compound(rng, P.positive, nmax=4, spell=False)
        if r < 0.30:
            # prefixed names (registered on the fly)
            out = {}
            for k, v in items.items():
                if rng.random() < 0.6 and len(k) > 1:
                    cand = rng.choice(DEC_PREFIXES + BIN_PREFIXES) + k
                    try:
                        pf, uu = P.proj.resolve(cand)
                        if uu["name"] == k and pf is not None and cand not in P.proj.unit_by_key:
                            k = cand
                    except Exception:  # noqa: BLE001
                        pass
                out[k] = v
            items = out
        elif r < 0.40:
            # several units of one dimension (reduction has work to do)
            dims = [d for d, l in P.by_dim.items() if len([n for n in l if n in P.positive]) > 2]
            l = [x for x in P.by_dim[rng.choice(dims)] if x in P.positive]
            items = {}
            for _ in range(rng.randint(2, 4)):
                items[rng.choice(l)] = Fraction(rng.choice([-3, -2, -1, 1, 2, 3]))
            if rng.random() < 0.5:
                items[rng.choice(P.positive)] = Fraction(rng.choice([-1, 1, 2]))
        elif r < 0.46:
            items = {rng.choice(["dtex", "rads", "radian", "count", "percent", "degree", "bit", "absorbance_unit"]): Fraction(rng.choice([1, 1, 2, -1]))}
            if rng.random() < 0.5:
                items[rng.choice(P.positive)] = Fraction(rng.choice([-1, 1]))
        elif r < 0.50:
            items = {rng.choice(["degree_Celsius", "degree_Fahrenheit", "kelvin", "delta_degree_Celsius"]): Fraction(1)}
        return items

    def rand_mag(self, rng):
        r = rng.random()
        if r < 0.70:
            return Fraction(rng.choice([1, -1]) * rng.randint(1, 999999), rng.choice([1, 1, 7, 1000])) * Fraction(10) ** rng.randint(-30, 30)
        if r < 0.80:
            return Fraction(rng.choice([1, -1])) * Fraction(1000) ** rng.randint(-10, 10)       # exact powers of 1000
        if r < 0.90:
            k = rng.randint(-8, 8)
            return Fraction(1000) ** k * (1 + Fraction(rng.choice([1, -1]), 10 ** rng.choice([3, 6, 9, 12, 17, 20])))
        if r < 0.95:
            return Fraction(0)
        return Fraction(rng.randint(1, 999))

    def cases(self):
        P = regs.pools()
        rng = self.rng
        out = []
        n = 700 if self.tier == "quick" else 12000
        for i in range(n):
            items = self.rand_units(rng, P)
            mag = self.rand_mag(rng)
            a = {"m": frac_s(mag), "u": uc_list(items)}
            system = rng.choice(SYSTEMS) if rng.random() < 0.4 else "mks"
            c = {"kind": "helpers", "a": a, "system": system}
            ops = [{"op": "rw", "f": "root", "a": a},
                   {"op": "gs", "f": "default_system", "s": system},
                   {"op": "rw", "f": "base", "a": a},
                   {"op": "gs", "f": "default_system", "s": "mks"},
                   {"op": "rw", "f": "reduced", "a": a},
                   {"op": "rw", "f": "compact", "a": a}]
            if rng.random() < 0.25 and len(items) == 1:
                # to_compact(unit=...) with another unit of the same dimension
                k = next(iter(items))
                try:
                    d = tuple(sorted(P.proj.dimensionality({k: Fraction(1)}).items()))
                    l = [x for x in P.by_dim.get(d, []) if x in P.positive]
                    if l and items[k] == 1:
                        c["unit"] = [[rng.choice(l), "1/1"]]
                        ops.append({"op": "rw", "f": "compact", "a": a, "unit": c["unit"]})
                except Exception:  # noqa: BLE001
                    pass
            names = list(items)
            if len(names) >= 2:
                x, y = rng.sample(names, 2)
                c["pair"] = [x, y]
                ops.append({"op": "rw", "f": "ratio", "a": x, "b": y})
            c["ops"] = ops
            self.bump("helpers")
            self.bump("system." + system)
            out.append(c)
        # automatic application after * and /
        for i in range(250 if self.tier == "quick" else 4000):
            ia = self.rand_units(rng, P)
            ib = self.rand_units(rng, P)
            a = {"m": frac_s(self.rand_mag(rng) or Fraction(3)), "u": uc_list(ia)}
            b = {"m": frac_s(self.rand_mag(rng) or Fraction(7)), "u": uc_list(ib)}
            f = rng.choice(["mul", "div"])
            c = {"kind": "auto_reduce", "a": a, "b": b, "f": f,
                 "ops": [{"op": "rw", "f": f + "_reduced", "a": a, "b": b}]}
            self.bump("auto_reduce." + f)
            out.append(c)
        # the prefix table and the exact power
        out.append({"kind": "si_table", "ops": [{"op": "rw", "f": "si_table"}]})
        self.bump("si_table")
        return out

    # ------------------------------------------------------------------ implementation
    def mkq(self, u, j):
        return u.Quantity(Fraction(j["m"]), u.Unit(regs.pint_uc(u, j["u"], canonical=True)))

    def impl(self, c):
        if c["kind"] == "si_table":
            u = regs.ureg("fraction")
            # the table as to_compact builds it
            t = {}
            for p in u._prefixes.values():
                try:
                    s = p.converter.scale
                    l = int(math.log10(s))
                    if l == math.log10(s):
                        t[l] = p.name
                except Exception:  # noqa: BLE001
                    t[0] = ""
            return [{"ok": [[frac_s(Fraction(k)), v] for k, v in sorted(t.items())]}]
        if c["kind"] == "auto_reduce":
            u = regs.ureg("fraction", auto_reduce_dimensions=True)
            a, b = self.mkq(u, c["a"]), self.mkq(u, c["b"])
            return [capture(lambda: qj(a * b if c["f"] == "mul" else a / b))]
        u = regs.ureg("fraction", system=c["system"]) if c["system"] != "mks" else regs.ureg("fraction")
        u0 = regs.ureg("fraction")
        outs = []
        with warnings.catch_warnings():
            warnings.simplefilter("ignore")
            outs.append(capture(lambda: qj(self.mkq(u0, c["a"]).to_root_units())))
            outs.append({"ok": None})
            outs.append(capture(lambda: qj(self.mkq(u, c["a"]).to_base_units())))
            outs.append({"ok": None})
            outs.append(capture(lambda: qj(self.mkq(u0, c["a"]).to_reduced_units())))
            outs.append(capture(lambda: qj(self.mkq(u0, c["a"]).to_compact())))
            if "unit" in c:
                outs.append(capture(lambda: qj(self.mkq(u0, c["a"]).to_compact(u0.Unit(regs.pint_uc(u0, c["unit"], canonical=True))))))
            if "pair" in c:
                def ratio():
                    r = u0._get_dimensionality_ratio(*c["pair"])
                    return None if r is None else frac_s(Fraction(r))
                outs.append(capture(ratio))
        return outs

    def same(self, c, io, mo):
        if len(io) != len(mo):
            return False
        for k, (i, m) in enumerate(zip(io, mo)):
            if m.get("err") == "Inexact":
                continue
            if "err" in i and "err" in m:
                if i["err"] == m["err"] or {i["err"], m["err"]} <= {"Other", "Other:AssertionError", "Other:IndexError"}:
                    continue
                return False
            if c["kind"] == "helpers" and k == 5 or (k == 6 and "unit" in c):
                if self.f13(c, i, m):
                    continue
            if canon(i) != canon(m):
                return False
        return True

    def f13(self, c, i, m):
        """to_compact: the float log10 of a magnitude within an ulp of a power of 1000 rounds across the boundary"""
        if "ok" not in i or "ok" not in m:
            return False
        try:
            mi, mm = abs(Fraction(i["ok"]["m"])), abs(Fraction(m["ok"]["m"]))
        except Exception:  # noqa: BLE001
            return False
        if mi == 0 or mm == 0:
            return False
        r = mi / mm
        # same quantity with the prefix a power of 1000 apart, and one of the magnitudes within float resolution of a
        # power of ten: math.log10 of the float rounds across the boundary
        lr = math.log10(float(r))
        if abs(lr - round(lr)) > 1e-9 or round(lr) == 0 or round(lr) % 3 != 0:
            return False
        for x in (mi, mm):
            lx = math.log10(float(x))
            if abs(lx - round(lx)) < 1e-12 and x != Fraction(10) ** round(lx):
                return True
        return False

    def nontrivial(self, c, io):
        if c["kind"] == "helpers":
            if len(c["a"]["u"]) >= 2 or any(k not in regs.pools().proj.unit_by_key for k, _ in c["a"]["u"]):
                return (c["a"]["m"], str(c["a"]["u"]), c["system"])
            return None
        if c["kind"] == "auto_reduce":
            return (str(c["a"]), str(c["b"]), c["f"])
        return None

    # ------------------------------------------------------------------ oracle: the property on the real code
    def phys(self, P, q):
        """(root magnitude, dimensionality) through the independent definition reader; exact for integer
        exponents, float when a unit is raised to a fractional power"""
        units = {k: regs.to_frac(v) for k, v in q._units.items()}
        d = P.proj.dimensionality(units)
        dd = tuple(sorted((k, v) for k, v in d.items() if v != 0))
        if all(v.denominator == 1 for v in units.values()) and not isinstance(q.magnitude, float):
            f, _ = P.proj.root(units)
            return Fraction(q.magnitude) * f, dd
        f = 1.0
        for k, e in units.items():
            fk, _ = P.proj.root({k: Fraction(1)})
            f *= float(fk) ** float(e)
        return float(q.magnitude) * f, dd

    @staticmethod
    def close(a, b):
        if a[1] != b[1]:
            return False
        if isinstance(a[0], float) or isinstance(b[0], float):
            return math.isclose(float(a[0]), float(b[0]), rel_tol=1e-9)
        return a[0] == b[0]

    def ambiguous(self, P, k):
        """an explicitly defined name that also reads as prefix + unit (kilometer_per_second), or a prefix put on one"""
        if k in P.proj.unit_by_key:
            return self.readings(P, k)[0] is not None
        pf, uu = P.proj.resolve(k)
        return self.readings(P, uu["name"])[0] is not None

    def readings(self, P, k):
        """(prefix record or None, unit record): like pint, a name that reads as prefix + unit is taken as that"""
        for pk, pr in P.proj.prefix_keys:
            if pk and k.startswith(pk) and pr["name"] == pk and k[len(pk):] in P.proj.unit_by_key:
                base = P.proj.unit_by_key[k[len(pk):]]
                if base["name"] == k[len(pk):] and base["conv"] == "scale":
                    return pr, base
        return P.proj.resolve(k)

    def mult_only(self, P, items):
        for k, _ in items:
            try:
                pf, uu = P.proj.resolve(k)
            except Exception:  # noqa: BLE001
                return False
            if uu["conv"] != "scale":
                return False
        return True

    def oracle(self, c):
        P = regs.pools()
        v = []
        if c["kind"] == "si_table":
            return v
        if c["kind"] == "auto_reduce":
            return self.oracle_auto(P, c)
        u = regs.ureg("fraction", system=c["system"]) if c["system"] != "mks" else regs.ureg("fraction")
        try:
            q = self.mkq(u, c["a"])
        except Exception:  # noqa: BLE001
            return v
        tag = f"C15 {q!r}"[:200]
        mult = self.mult_only(P, c["a"]["u"])
        try:
            want = self.phys(P, q) if mult else None
        except Exception:  # noqa: BLE001
            want = None
        u.default_preferred_units = [u.Unit("meter"), u.Unit("kilogram"), u.Unit("second"), u.Unit("newton"), u.Unit("watt"),
                                     u.Unit("ampere"), u.Unit("kelvin")]
        helpers = [("to_root_units", ()), ("to_base_units", ()), ("to_reduced_units", ()), ("to_compact", ()), ("to_preferred", ())]
        if "unit" in c:
            helpers.append(("to_compact", (u.Unit(regs.pint_uc(u, c["unit"], canonical=True)),)))
        for h, args in helpers:
            with warnings.catch_warnings():
                warnings.simplefilter("ignore")
                try:
                    r = getattr(q, h)(*args)
                except Exception as exc:  # noqa: BLE001
                    if mult and type(exc).__name__ not in ("OffsetUnitCalculusError",):
                        v.append(f"{tag}.{h}() raised {type(exc).__name__} on a multiplicative quantity")
                    continue
                if mult and want is not None:
                    try:
                        got = self.phys(P, r)
                        if not self.close(got, want):
                            v.append(f"{tag}.{h}() = {r!r}: physical value or dimensionality changed")
                    except Exception as exc:  # noqa: BLE001
                        v.append(f"{tag}.{h}() = {r!r}: result not readable ({type(exc).__name__})")
                # the in-place twin
                ih = "i" + h
                if hasattr(type(q), ih) and not args:
                    q2 = self.mkq(u, c["a"])
                    try:
                        getattr(q2, ih)()
                        if dict(q2._units) != dict(r._units) or q2.magnitude != r.magnitude:
                            v.append(f"{tag}: {ih} leaves {q2!r}, {h} returns {r!r}")
                    except Exception as exc:  # noqa: BLE001
                        v.append(f"{tag}: {ih} raised {type(exc).__name__} where {h} returned")
                if h == "to_reduced_units" and mult:
                    names = list(r._units)
                    dims = {}
                    for nme in names:
                        dims[nme] = {k: x for k, x in P.proj.dimensionality({nme: Fraction(1)}).items() if x != 0}
                    for i_, a in enumerate(names):
                        for b in names[i_ + 1:]:
                            da, db = dims[a], dims[b]
                            prop = (da == db) or (da and db and da.keys() == db.keys()
                                                  and len({db[k] / da[k] for k in da}) == 1)
                            if prop:
                                v.append(f"{tag}.to_reduced_units() = {r!r} still has {a} and {b} of one dimension")
                if h == "to_compact" and mult:
                    v.extend(self.oracle_compact(P, u, q, r, args, tag))
        # other magnitude types: the same helpers on float, Decimal and uncertain magnitudes agree numerically with the exact answers
        if mult and want is not None and Fraction(c["a"]["m"]) != 0 and all(Fraction(e).denominator == 1 for _, e in c["a"]["u"]):
            v.extend(self.oracle_types(P, c, want))
        if not getattr(self, "_fixed_done", False):
            self._fixed_done = True
            v.extend(self.preferred_probes())
        if mult and want is not None and all(Fraction(e).denominator == 1 for _, e in c["a"]["u"]):
            v.extend(self.oracle_arrays(c, tag))
        # passthrough
        for special in (float("nan"), float("inf"), float("-inf"), 0, 0.0, Fraction(0)):
            qs = u.Quantity(special, q.units)
            try:
                with warnings.catch_warnings():
                    warnings.simplefilter("ignore")
                    rs = qs.to_compact()
                same = rs.units == qs.units and (rs.magnitude == qs.magnitude or (special != special and rs.magnitude != rs.magnitude))
                if not same:
                    v.append(f"{tag}: to_compact of magnitude {special!r} returned {rs!r}")
            except Exception as exc:  # noqa: BLE001
                if mult:
                    v.append(f"{tag}: to_compact of magnitude {special!r} raised {type(exc).__name__}")
        return v

    def prefix_history_probe(self):
        """to_compact brings the magnitude into [1, 1000) whenever such a prefix exists - exists NOW: prefixes defined after the
        first to_compact call count like those defined before it"""
        import pint
        v = []
        for asked_first in (False, True):
            r = pint.UnitRegistry(None)
            for line in ("meter = [length] = m", "kilo- = 1000 = k-"):
                r.define(line)
            if asked_first:
                r.Quantity(5000.0, "meter").to_compact()
            r.define("mega- = 1e6 = M-")
            r.define("milli- = 1e-3 = m-")
            for x, want_m, want_u in ((5e6, 5.0, "megameter"), (0.02, 20.0, "millimeter"), (5000.0, 5.0, "kilometer")):
                q = r.Quantity(x, "meter").to_compact()
                if not (abs(q.magnitude - want_m) < 1e-9 and str(q.units) == want_u):
                    v.append(f"C15 prefixes mega- and milli- defined {'after' if asked_first else 'before'} the first to_compact call: "
                             f"{x} meter -> {q!r}, expected {want_m} {want_u}")
            d = regs.fresh("float")
            if asked_first:
                d.Quantity(5.0e3, "meter").to_compact()
            d.define("bronto- = 1e33 = Bo-")
            q = d.Quantity(5e34, "meter").to_compact()
            if not (1 <= q.magnitude < 1000):
                v.append(f"C15 bundled registry, bronto- = 1e33 defined {'after' if asked_first else 'before'} the first to_compact call: "
                         f"5e34 meter -> {q!r}, a prefix bringing the magnitude into [1, 1000) exists")
        return v

    def preferred_probes(self):
        """to_preferred picks a preferred unit of the same dimension (exponents proportional), never another one"""
        v = []
        v += self.prefix_history_probe()
        u = regs.fresh("float")
        for s, pref in (("meter**2*second", ["meter*second"]), ("meter**3/second", ["meter/second"]), ("meter**2*second**2", ["meter*second"]),
                        ("kilogram*meter/second**2", ["newton"]), ("meter**2/second**2", ["meter/second", "joule"])):
            q = u.Quantity(3.0, s)
            try:
                with warnings.catch_warnings():
                    warnings.simplefilter("ignore")
                    r = q.to_preferred([u.Unit(p_) for p_ in pref])
                if r.dimensionality != q.dimensionality or not math.isclose(r.to_root_units().magnitude, q.to_root_units().magnitude, rel_tol=1e-12):
                    v.append(f"C15 {q!r}.to_preferred({pref}) = {r!r}: dimensionality or value changed")
            except Exception as exc:  # noqa: BLE001
                v.append(f"C15 {q!r}.to_preferred({pref}) raised {type(exc).__name__}: {exc}")
        return v

    def oracle_arrays(self, c, tag):
        """ndarray magnitudes (float and integer dtype): an in-place twin leaves what the helper returns, or refuses; it never
        leaves other numbers (an integer array cannot hold a rescaled value)"""
        import numpy as np
        v = []
        uf = regs.ureg("float")
        try:
            units = uf.Unit(regs.pint_uc(uf, c["a"]["u"], "float", canonical=True))
        except Exception:  # noqa: BLE001
            return v
        for arr in (np.array([1.0, 2.5, 1500.0]), np.array([1, 2, 1500]), np.array([7, 999, 12345], dtype=np.int64)):
            for h in ("to_root_units", "to_base_units", "to_reduced_units"):
                with warnings.catch_warnings():
                    warnings.simplefilter("ignore")
                    src_arr = arr.copy()
                    src_q = uf.Quantity(src_arr, units)
                    try:
                        r = getattr(src_q, h)()
                    except Exception:  # noqa: BLE001
                        continue
                    # the functional form returns a new quantity: its receiver (and the caller's array) read as before, and a
                    # second call gives the same result
                    if not (np.array_equal(src_arr, arr) and np.array_equal(np.asarray(src_q.magnitude), arr) and src_q.units == units):
                        v.append(f"{tag}: {h}() on the {arr.dtype} array {arr.tolist()} changed its receiver to {src_q!r}")
                        continue
                    try:
                        r2 = getattr(src_q, h)()
                        if r2.units != r.units or not np.allclose(np.asarray(r2.magnitude, dtype=float), np.asarray(r.magnitude, dtype=float),
                                                                  rtol=1e-12, atol=0, equal_nan=True):
                            v.append(f"{tag}: {h}() called twice on the {arr.dtype} array {arr.tolist()} gives {r!r} then {r2!r}")
                    except Exception:  # noqa: BLE001
                        pass
                    q2 = uf.Quantity(arr.copy(), units)
                    try:
                        getattr(q2, "i" + h)()
                    except Exception:  # noqa: BLE001
                        continue                    # refusing (e.g. a casting error for an integer array) is acceptable
                    ok = q2.units == r.units and np.allclose(np.asarray(q2.magnitude, dtype=float), np.asarray(r.magnitude, dtype=float),
                                                             rtol=1e-9, atol=0, equal_nan=True)
                    if not ok:
                        v.append(f"{tag}: i{h} on the {arr.dtype} array {arr.tolist()} leaves {q2!r}, {h} returns {r!r}")
        return v

    def oracle_types(self, P, c, want):
        from decimal import Decimal
        from uncertainties import ufloat
        v = []
        fr = Fraction(c["a"]["m"])
        if not (1e-250 < abs(float(fr)) < 1e250):
            return v
        # float range: the intermediate factors of these unit powers must stay far from overflow / underflow
        try:
            for k, e in c["a"]["u"]:
                f, _ = P.proj.root({k: Fraction(1)})
                lg = abs(math.log10(abs(float(f)))) * abs(float(Fraction(e))) if f != 0 else 999
                if lg > 60:
                    self.bump("float range (types not compared)")
                    return v
        except Exception:  # noqa: BLE001
            return v
        variants = [("float", regs.ureg("float"), float(fr)),
                    ("decimal", regs.ureg("decimal"), Decimal(fr.numerator) / Decimal(fr.denominator)),
                    ("ufloat", regs.ureg("float"), ufloat(float(fr), abs(float(fr)) / 8))]
        for tname, u, mag in variants:
            try:
                q = u.Quantity(mag, u.Unit(regs.pint_uc(u, c["a"]["u"], "float" if tname == "ufloat" else tname, canonical=True)))
            except Exception:  # noqa: BLE001
                continue
            for h in ("to_root_units", "to_base_units", "to_reduced_units", "to_compact"):
                with warnings.catch_warnings():
                    warnings.simplefilter("ignore")
                    try:
                        r = getattr(q, h)()
                        units = {k: regs.to_frac(x) for k, x in r._units.items()}
                        if any(x.denominator != 1 for x in units.values()):
                            continue
                        f, _ = P.proj.root(units)
                        m = r.magnitude
                        nom = float(m.nominal_value) if hasattr(m, "nominal_value") else float(m)
                        got = nom * float(f)
                        if not math.isfinite(got) or not math.isfinite(nom):
                            continue
                        if not math.isclose(got, float(want[0]), rel_tol=1e-9):
                            known = ""
                            if tname != "decimal":
                                # float range: the running product of the factors (source or result units) leaves the normal
                                # float range on the way, or the result collapsed to zero although the value is representable
                                from .c02 import Check as C02
                                try:
                                    los, his = zip(C02.float_excursion(u, q._units), C02.float_excursion(u, r._units))
                                    lo, hi = min(los), max(his)
                                except Exception:  # noqa: BLE001
                                    lo, hi = 1.0, 1.0
                                if lo < 1e-290 or hi > 1e290 or (nom == 0 and want[0] != 0):
                                    known = (f" [known finding F61] (float range: the running product of the conversion factors spans "
                                             f"{lo:.3g} .. {hi:.3g})")
                            v.append(f"C15 {q!r}.{h}() [{tname} magnitude] = {r!r}: physical value {got} differs from {float(want[0])}{known}")
                        d = P.proj.dimensionality(units)
                        if tuple(sorted((k, x) for k, x in d.items() if x != 0)) != want[1]:
                            v.append(f"C15 {q!r}.{h}() [{tname} magnitude] = {r!r}: dimensionality changed")
                        if tname == "ufloat" and 1e-140 < abs(nom) < 1e140 and not math.isclose(m.std_dev / abs(nom), 1 / 8, rel_tol=1e-9):
                            v.append(f"C15 {q!r}.{h}() [uncertain magnitude]: relative error {m.std_dev / abs(nom)} instead of 0.125")
                        if tname == "decimal" and not isinstance(m, (Decimal, int)):
                            v.append(f"C15 {q!r}.{h}() [Decimal magnitude] returned a {type(m).__name__}")
                    except Exception as exc:  # noqa: BLE001
                        if type(exc).__name__ not in ("OffsetUnitCalculusError", "OverflowError", "InvalidOperation", "Overflow"):
                            tag32 = ""
                            if h == "to_reduced_units" and type(exc).__name__ == "DimensionalityError" and self.fractional_ratio(P, c["a"]["u"]):
                                tag32 = " " + F32_TAG
                            v.append(f"C15 {q!r}.{h}() [{tname} magnitude] raised {type(exc).__name__}: {str(exc)[:120]}{tag32}")
        return v

    def fractional_ratio(self, P, items):
        """do two units of the quantity have proportional dimensionalities with a ratio other than 1?"""
        dims = []
        for k, _ in items:
            try:
                d = {a: b for a, b in P.proj.dimensionality({k: Fraction(1)}).items() if b != 0}
            except Exception:  # noqa: BLE001
                return False
            dims.append(d)
        for i, da in enumerate(dims):
            for db in dims[i + 1:]:
                if da and db and da.keys() == db.keys():
                    rs = {db[x] / da[x] for x in da}
                    if len(rs) == 1:
                        if rs.pop() != 1:          # any ratio other than 1 makes `exp / power` a float division
                            return True
        return False

    def strip(self, P, units, check_decimal=False):
        out = {}
        npref = 0
        for k, e in units.items():
            if k not in P.proj.unit_by_key:
                npref += 1
            name = k
            for _ in range(4):      # strip prefixes until the name has no prefixed reading
                pf, uu = self.readings(P, name)
                if pf is None:
                    break
                if check_decimal:
                    lg = math.log10(float(pf["value"]))
                    if abs(lg - round(lg)) > 1e-9:
                        return None, None
                name = uu["name"]
            out[uu["name"]] = out.get(uu["name"], 0) + regs.to_frac(e)
        return {k: x for k, x in out.items() if x != 0}, npref

    def oracle_compact(self, P, u, q, r, args, tag):
        v = []
        if not q._units or q.magnitude == 0 or q.unitless:
            if r.units != q.units or r.magnitude != q.magnitude:
                v.append(f"{tag}.to_compact() changed a unitless or zero quantity to {r!r}")
            return v
        src_units = dict(args[0]._units) if args else dict(q._units)
        try:
            sa, _ = self.strip(P, src_units)
            sb, npref = self.strip(P, dict(r._units), check_decimal=True)
        except Exception:  # noqa: BLE001
            return v
        if sb is None:
            v.append(f"{tag}.to_compact() = {r!r} uses a non-decimal prefix")
            return v
        if sa is not None and sa != sb:
            v.append(f"{tag}.to_compact() = {r!r}: units differ from the input's by more than prefixes")
        if npref > 1:
            v.append(f"{tag}.to_compact() = {r!r}: more than one prefixed unit")
        # range: leading unit = first with positive exponent in the prefix-free container
        if sa and not any(self.ambiguous(P, k) for k in list(src_units) + list(r._units)):
            base_order = []
            for k in src_units:
                pf, uu = self.readings(P, k)
                if uu["name"] in sa and uu["name"] not in base_order:
                    base_order.append(uu["name"])
            pos = [k for k in base_order if sa[k] > 0]
            lead = pos[0] if pos else None
            if lead is not None and sa[lead] == 1 and not isinstance(r.magnitude, float):
                m = abs(Fraction(r.magnitude))
                # magnitude in the prefix-free units
                f_r, _ = P.proj.root({k: regs.to_frac(e) for k, e in r._units.items()})
                f_b, _ = P.proj.root(sa)
                mb = m * f_r / f_b
                # does a prefix 10**(3k) exist that brings it into [1, 1000) ?
                k3 = None
                for k in range(-30, 31, 3):
                    if Fraction(10) ** k <= mb < Fraction(10) ** (k + 3):
                        k3 = k
                if k3 is not None and not (1 <= m < 1000):
                    near = abs(float(mb) / 10.0 ** k3 - 1.0) < 1e-9 or abs(float(mb) / 10.0 ** k3 - 1000.0) < 1e-6
                    v.append(f"{tag}.to_compact() = {r!r}: magnitude outside [1, 1000) although the prefix 10**{k3} exists"
                             + (" " + F13_TAG if near else ""))
        return v

    def oracle_auto(self, P, c):
        v = self.oracle_auto_one(P, c, "auto_reduce_dimensions")
        v += self.oracle_auto_one(P, c, "autoconvert_to_preferred")
        return v

    def oracle_auto_one(self, P, c, option):
        v = []
        u = regs.ureg("fraction", **{option: True})
        if option == "autoconvert_to_preferred":
            u.default_preferred_units = [u.Unit("meter"), u.Unit("kilogram"), u.Unit("second"), u.Unit("newton"), u.Unit("watt")]
        u0 = regs.ureg("fraction")
        try:
            a, b = self.mkq(u, c["a"]), self.mkq(u, c["b"])
            a0, b0 = self.mkq(u0, c["a"]), self.mkq(u0, c["b"])
        except Exception:  # noqa: BLE001
            return v
        if not (self.mult_only(P, c["a"]["u"]) and self.mult_only(P, c["b"]["u"])):
            return v
        try:
            r0 = a0 * b0 if c["f"] == "mul" else a0 / b0
        except Exception:  # noqa: BLE001
            return v
        try:
            r = a * b if c["f"] == "mul" else a / b
        except Exception as exc:  # noqa: BLE001
            v.append(f"C15 {option} {a!r} {c['f']} {b!r}: raised {type(exc).__name__}, the plain registry returns {r0!r}")
            return v
        try:
            if not self.close(self.phys(P, r), self.phys(P, r0)):
                v.append(f"C15 {option} {a!r} {c['f']} {b!r} = {r!r}: differs physically from the plain result {r0!r}")
        except Exception:  # noqa: BLE001
            pass
        return v

    def fixed_probes(self):
        return []
