"""C18 — copy, pickle and tuple serialisation preserve objects; registries stay isolated."""
from __future__ import annotations

import copy
import inspect
import operator
import pickle
import warnings
from decimal import Decimal
from fractions import Fraction

from . import regs, core
import os
import sys
from .core import Property, capture, frac_s, canon, err_name

PREFIXES = ["kilo", "milli", "micro", "mega", "nano", "giga"]
OPS = {"add": operator.add, "sub": operator.sub, "mul": operator.mul, "truediv": operator.truediv, "floordiv": operator.floordiv,
       "mod": operator.mod, "divmod": divmod, "lt": operator.lt, "le": operator.le, "gt": operator.gt, "ge": operator.ge,
       "iadd": operator.iadd, "isub": operator.isub, "imul": operator.imul, "itruediv": operator.itruediv,
       "ifloordiv": operator.ifloordiv, "imod": operator.imod, "pow": operator.pow, "ipow": operator.ipow}


def qj(q):
    return {"m": frac_s(Fraction(q.magnitude)), "u": sorted([k, frac_s(regs.to_frac(v))] for k, v in q._units.items())}


class Check(Property):
    ID = "C18"
    PROPS_FILE = "PintModel/Props/C18.lean"
    MODULE = "PintModel.Props.C18"
    RULE = ("random quantities / units / measurements / containers over the bundled registry (prefixed names that exist only after "
            "parsing included) x pickle protocols 0-5 x int / float / Fraction / Decimal / ndarray magnitudes, unpickled into a fresh "
            "application registry; copy / deepcopy; to_tuple / from_tuple; every exception class of pint.errors with random arguments; "
            "the operator x object-kind matrix between two registries; deep-copied registries evolving apart; the lazy default "
            "registry against an explicit one; non-trivial = distinct objects with a compound or prefixed unit")
    PARTIAL = ["the pickle byte stream, copy.deepcopy of a registry's object graph and LazyRegistry / ApplicationRegistry are Python "
               "runtime: only their observable results are compared",
               "== between quantities of different registries returns a bool by design (only arithmetic and ordering are refused)"]

    # ------------------------------------------------------------------ generation
    def cases(self):
        P = regs.pools()
        rng = self.rng
        out = []
        for i in range(110 if self.tier == "quick" else 700):
            items = P.compound(rng, P.positive, nmax=3, spell=False)
            if rng.random() < 0.5:
                items = {(rng.choice(PREFIXES) + k if rng.random() < 0.6 and (rng.choice(PREFIXES) + k) not in P.proj.unit_by_key else k): v
                         for k, v in items.items()}
                # keep only names that really read as prefix + unit
                ok = {}
                for k, v in items.items():
                    try:
                        P.proj.resolve(k)
                        ok[k] = v
                    except Exception:  # noqa: BLE001
                        pass
                items = ok or {"meter": Fraction(1)}
            mag = Fraction(rng.randint(-999, 999), rng.choice([1, 1, 2, 8]))
            a = {"m": frac_s(mag), "u": [[k, frac_s(v)] for k, v in items.items()]}
            self.bump("object")
            out.append({"kind": "object", "a": a, "mtype": rng.choice(["int", "float", "fraction", "decimal", "array", "array2"]),
                        "ops": [{"op": "reset"}, {"op": "ser", "f": "tuple", "a": a}, {"op": "ser", "f": "unpickle", "a": a}, {"op": "reset"}]})
        for on in OPS:
            for ka in ("q", "unit", "qarr", "meas", "gq", "gunit", "qd"):
                for kb in ("q", "unit", "qarr", "meas", "gq", "gunit", "qd"):
                    if ("qd" in (ka, kb)) != (on in ("pow", "ipow")):
                        continue          # the dimensionless kind serves the power operators (an exponent must be dimensionless)
                    self.bump("cross")
                    out.append({"kind": "cross", "op": on, "a": ka, "b": kb, "ops": [{"op": "ser", "f": "cross", "op_": on, "op": "ser"}]})
        self.bump("exceptions")
        out.append({"kind": "exceptions", "ops": []})
        for i in range(6 if self.tier == "quick" else 60):
            self.bump("registry copies")
            out.append({"kind": "copies", "seed": rng.getrandbits(32), "ops": []})
        self.bump("lazy registry")
        out.append({"kind": "lazy", "ops": []})
        return out

    # ------------------------------------------------------------------ implementation
    def magnitude(self, c, frac):
        import numpy as np
        t = c["mtype"]
        if t == "int":
            return int(frac) if frac.denominator == 1 else frac
        if t == "float":
            return float(frac)
        if t == "decimal":
            return Decimal(frac.numerator) / Decimal(frac.denominator)
        if t == "array":
            return np.array([float(frac), 2.0, -1.5])
        if t == "array2":
            return np.array([[1, 2], [3, int(frac.numerator)]])
        return frac

    def build(self, u, c):
        frac = Fraction(c["a"]["m"])
        un = u.Unit(u.UnitsContainer({k: int(Fraction(e)) for k, e in c["a"]["u"]}))
        return u.Quantity(self.magnitude(c, frac), un), un

    _pool = {}

    def app_registry(self, tname, names):
        """a registry in which none of `names` has been registered yet (reused between cases while that holds)"""
        key = ("app", tname)
        r = self._pool.get(key)
        if r is None or any(n in r._units for n in names if n not in regs.pools().proj.unit_by_key) or self._pool.get(key + ("n",), 0) > 40:
            r = regs.fresh(tname)
            self._pool[key] = r
            self._pool[key + ("n",)] = 0
        self._pool[key + ("n",)] += 1
        return r

    def impl(self, c):
        import pint
        if c["kind"] == "cross":
            return [capture(lambda: self.cross(c))]
        if c["kind"] != "object":
            return []
        src = regs.ureg("fraction")
        outs = [{"ok": None}]
        fr = Fraction(c["a"]["m"])
        q = src.Quantity(fr, src.Unit(src.UnitsContainer({k: int(Fraction(e)) for k, e in c["a"]["u"]})))
        outs.append(capture(lambda: qj(src.Quantity.from_tuple(q.to_tuple()))))
        app = self.app_registry("fraction", [k for k, _ in c["a"]["u"]])
        old = pint.application_registry.get()
        pint.set_application_registry(app)
        try:
            def run():
                y = pickle.loads(pickle.dumps(q, pickle.HIGHEST_PROTOCOL))
                return {"q": qj(y), "registered": sorted(k for k in y._units if k in app._units)}
            outs.append(capture(run))
        finally:
            pint.set_application_registry(old)
        outs.append({"ok": None})
        return outs

    def objs(self, u, kind):
        import numpy as np
        import pint
        if kind in ("gq", "gunit"):
            # the generic top-level classes: instances belong to whichever application registry is set when they are built
            old = pint.application_registry.get()
            pint.set_application_registry(u)
            try:
                return pint.Quantity(2, "meter") if kind == "gq" else pint.Unit("meter")
            finally:
                pint.set_application_registry(old)
        if kind == "q":
            return u.Quantity(2, "meter")
        if kind == "unit":
            return u.meter
        if kind == "qd":
            return u.Quantity(2.0, "")
        if kind == "qarr":
            return u.Quantity(np.array([1.0, 2.0]), "meter")
        return u.Measurement(2.0, 0.1, "meter")

    def cross(self, c):
        a, b = regs.ureg("float"), regs.ureg("float", auto_reduce_dimensions=True)     # two distinct registries
        f = OPS[c["op"]]
        with warnings.catch_warnings():
            warnings.simplefilter("ignore")
            try:
                f(self.objs(a, c["a"]), self.objs(a, c["b"]))
            except Exception:  # noqa: BLE001
                return "undefined-within-one-registry"
            f(self.objs(a, c["a"]), self.objs(b, c["b"]))
        return None

    def same(self, c, io, mo):
        if c["kind"] == "cross":
            i = io[0]
            if i.get("ok") == "undefined-within-one-registry":
                return True
            return "err" in i and i["err"] == "ValueError" and mo[0].get("err") == "ValueError"
        if c["kind"] != "object":
            return True
        for i, m in zip(io, mo):
            if i == {"ok": None} or m == {"ok": None}:
                continue
            if "err" in i and "err" in m:
                continue
            if canon(i) != canon(m):
                return False
        return True

    def nontrivial(self, c, io):
        if c["kind"] == "object":
            return canon(c["a"]) + c["mtype"] if len(c["a"]["u"]) > 1 or c["a"]["u"][0][0] not in regs.pools().proj.unit_by_key else None
        if c["kind"] == "cross":
            return f"{c['op']}:{c['a']}:{c['b']}"
        return c["kind"] + str(c.get("seed", ""))

    # ------------------------------------------------------------------ oracle
    def eq(self, x, y):
        import numpy as np
        if hasattr(x, "magnitude") and hasattr(x.magnitude, "nominal_value"):
            return (type(y) is type(x) and y.magnitude.nominal_value == x.magnitude.nominal_value
                    and y.magnitude.std_dev == x.magnitude.std_dev and y.units == x.units)
        r = (x == y)
        if isinstance(r, np.ndarray):
            r = bool(r.all())
        ok = bool(r) and type(y) is type(x)
        if ok and hasattr(x, "magnitude"):
            ok = type(y.magnitude) is type(x.magnitude) and dict(y._units) == dict(x._units)
            if isinstance(x.magnitude, np.ndarray):
                ok = ok and y.magnitude.dtype == x.magnitude.dtype and y.magnitude.shape == x.magnitude.shape
        return ok

    def oracle(self, c):
        k = c["kind"]
        if not getattr(self, "_known_done", False):
            self._known_done = True
            kv = self.known_probes() + self.cross_process_probe()
            if kv:
                return kv
        if k == "object":
            return self.oracle_object(c)
        if k == "cross":
            r = self.impl(c)[0]
            if r.get("ok") == "undefined-within-one-registry":
                return []
            if r.get("err") != "ValueError":
                return [f"C18 {c['a']} {c['op']} {c['b']} between two registries: {'returned' if 'ok' in r else r['err']} (ValueError expected)"]
            return []
        if k == "exceptions":
            return self.oracle_exceptions()
        if k == "copies":
            return self.oracle_copies(c)
        if k == "lazy":
            return self.oracle_lazy()
        return []

    def oracle_object(self, c):
        import pint
        v = []
        src = regs.ureg("float")
        try:
            q, un = self.build(src, c)
        except Exception as exc:  # noqa: BLE001
            return [f"C18 building {c['a']} raised {type(exc).__name__}: {exc}"]
        things = [("quantity", q), ("unit", un), ("container", un._units)]
        if c["mtype"] in ("int", "float"):
            things.append(("measurement", src.Measurement(float(Fraction(c["a"]["m"])), 0.25, un)))
        from pint.util import ParserHelper
        things.append(("parserhelper", ParserHelper(3, dict(un._units))))
        tag = f"C18 {c['a']['u']} [{c['mtype']}]"
        old = pint.application_registry.get()
        for what, x in things:
            for nm, f in (("copy", copy.copy), ("deepcopy", copy.deepcopy)):
                try:
                    y = f(x)
                    if not self.eq(x, y):
                        v.append(f"{tag} {nm}({what}) = {y!r} differs from {x!r}")
                    if hasattr(x, "_REGISTRY") and y._REGISTRY is not x._REGISTRY:
                        v.append(f"{tag} {nm}({what}) belongs to another registry")
                except Exception as exc:  # noqa: BLE001
                    v.append(f"{tag} {nm}({what}) raised {type(exc).__name__}: {exc}")
            for proto in range(0, pickle.HIGHEST_PROTOCOL + 1):
                app = self.app_registry("float", list(getattr(x, "_units", x)) if not isinstance(x, type(None)) else [])
                pint.set_application_registry(app)
                try:
                    y = pickle.loads(pickle.dumps(x, proto))
                    if hasattr(x, "_REGISTRY"):
                        if y._REGISTRY is not app:
                            v.append(f"{tag} unpickled {what} (protocol {proto}) is not attached to the application registry")
                        # compare inside the application registry
                        x2 = app.Quantity(x.magnitude, app.Unit(x._units)) if what == "quantity" else (
                            app.Unit(x._units) if what == "unit" else app.Measurement(x.magnitude.nominal_value, x.magnitude.std_dev, app.Unit(x._units)))
                        if not self.eq(x2, y):
                            v.append(f"{tag} unpickled {what} (protocol {proto}) = {y!r}, pickled {x!r}")
                        for name in x._units:
                            if name not in app._units:
                                v.append(f"{tag} unpickled {what} (protocol {proto}): {name} is not registered in the application registry")
                        try:
                            (y if what != "unit" else app.Quantity(1, y)).to_root_units()
                        except Exception as exc:  # noqa: BLE001
                            if type(exc).__name__ != "OffsetUnitCalculusError":
                                v.append(f"{tag} unpickled {what} (protocol {proto}) is not usable: {type(exc).__name__}: {exc}")
                    elif not self.eq(x, y):
                        v.append(f"{tag} unpickled {what} (protocol {proto}) = {y!r}, pickled {x!r}")
                except Exception as exc:  # noqa: BLE001
                    v.append(f"{tag} pickling {what} with protocol {proto} raised {type(exc).__name__}: {exc}")
                finally:
                    pint.set_application_registry(old)
        try:
            t = q.to_tuple()
            q2 = src.Quantity.from_tuple(t)
            if not self.eq(q, q2):
                v.append(f"{tag} from_tuple(to_tuple(q)) = {q2!r}, q = {q!r}")
        except Exception as exc:  # noqa: BLE001
            v.append(f"{tag} to_tuple/from_tuple raised {type(exc).__name__}: {exc}")
        # fractional exponents in the registry's own numeric type survive the tuple form (value and type), in the float,
        # Fraction and Decimal registries
        try:
          for src2 in (regs.ureg("float"), regs.ureg("fraction"), regs.ureg("decimal")):
            T = src2.non_int_type
            for e in ((T("0.1"), T(1) / T(3)) if T is not float else (0.5, 0.1)):
                if not all(src._units[k].is_multiplicative for k in q._units):
                    break
                qf = src2.Quantity(T(2), src2.Unit(src2.UnitsContainer({k: (T(str(x)) if not isinstance(x, int) else x) for k, x in q._units.items()}))) ** e
                q3 = src2.Quantity.from_tuple(qf.to_tuple())
                t1 = {k: (type(x).__name__, x) for k, x in qf._units.items()}
                t2 = {k: (type(x).__name__, x) for k, x in q3._units.items()}
                if t1 != t2:
                    v.append(f"{tag} ** {e!r}: from_tuple(to_tuple()) has the exponents {t2}, the quantity had {t1}")
                else:
                    try:
                        if not self.eq(q3, qf):
                            v.append(f"{tag} ** {e!r}: from_tuple(to_tuple()) = {q3!r} is not equal to {qf!r}")
                    except Exception as exc:  # noqa: BLE001
                        v.append(f"{tag} ** {e!r}: comparing the rebuilt quantity raised {type(exc).__name__}: {exc}")
        except Exception as exc:  # noqa: BLE001
            v.append(f"{tag} fractional-exponent tuple round trip raised {type(exc).__name__}: {exc}")
        return v

    def known_probes(self):
        """objects of two registries combined through NumPy or through a conversion target (recorded as a known finding)"""
        import numpy as np
        v = []
        A, B = regs.fresh("float"), regs.fresh("float")
        with warnings.catch_warnings():
            warnings.simplefilter("ignore")
            for label, fn in (("np.add(A [1] m, B [2] cm)", lambda: np.add(A.Quantity(np.array([1.0]), "meter"), B.Quantity(np.array([2.0]), "centimeter"))),
                              ("A.Quantity(1, 'm').to(B.cm)", lambda: A.Quantity(1.0, "meter").to(B.centimeter)),
                              ("A.Quantity(1, B.m)", lambda: A.Quantity(1.0, B.meter))):
                try:
                    r = fn()
                    v.append(f"C18 [known finding F55] {label} returned {r!r}: objects of two registries combined silently (ValueError expected)")
                except ValueError:
                    pass
                except Exception as exc:  # noqa: BLE001
                    v.append(f"C18 probe {label} raised {type(exc).__name__}: {exc}")
        return v

    def oracle_exceptions(self):
        import pint
        import pint.errors as E
        v = []
        rng = self.rng
        u = regs.ureg("float")
        pool = ["meter", "x y", "", "kilo[length]", ("a", "b"), 3, None, 2.5, u.UnitsContainer({"m": 1})]
        for name, cls in inspect.getmembers(E, inspect.isclass):
            if not (issubclass(cls, BaseException) and cls.__module__ == "pint.errors"):
                continue
            try:
                sig = inspect.signature(cls.__init__)
                params = [p for p in sig.parameters.values() if p.name != "self" and p.kind == p.POSITIONAL_OR_KEYWORD]
            except (TypeError, ValueError):
                params = []
            nreq = len([p for p in params if p.default is p.empty])
            # deterministic argument lists first: values that are falsy without being None ('' as written by the error paths of
            # number / offset-quantity, 0, an empty container, an empty tuple) in the last position and in every position
            fixed = []
            for k in range(max(nreq, 1), len(params) + 1):
                for fv in ("", 0, u.UnitsContainer({}), ()):
                    fixed.append(["meter"] * (k - 1) + [fv])
                    fixed.append([fv] * k)
            for trial in range(6 + len(fixed)):
                if trial >= 6:
                    fx = fixed[trial - 6]       # (no random draw: the stream of the random trials is the same as before)
                    args = [fx[i] if params[i].name != "definition_type" else str for i in range(len(fx))]
                else:
                    nargs = rng.randint(nreq, len(params))
                    args = []
                    for p in params[:nargs]:
                        if p.name in ("msg", "extra_msg", "dim1", "dim2", "name"):
                            args.append(rng.choice(["some text", "", "[length]"]))
                        elif p.name == "definition_type":
                            args.append(rng.choice([str, int, pint.Unit]))
                        else:
                            args.append(rng.choice(pool))
                try:
                    e = cls(*args)
                    str(e)
                except Exception:  # noqa: BLE001
                    continue
                for how, f in [(f"pickle{p}", (lambda x, p=p: pickle.loads(pickle.dumps(x, p)))) for p in range(pickle.HIGHEST_PROTOCOL + 1)] + \
                        [("copy", copy.copy), ("deepcopy", copy.deepcopy)]:
                    try:
                        y = f(e)
                        if type(y) is not type(e) or str(y) != str(e) or y.__dict__ != e.__dict__:
                            v.append(f"C18 {how}({name}{tuple(args)!r}) -> type {type(y).__name__}, fields {y.__dict__}, message {str(y)!r}; "
                                     f"original fields {e.__dict__}, message {str(e)!r}")
                    except Exception as exc:  # noqa: BLE001
                        v.append(f"C18 {how}({name}{tuple(args)!r}) raised {type(exc).__name__}: {exc}")
        return v

    def oracle_copies(self, c):
        import random
        v = []
        rng = random.Random(c["seed"])
        a = regs.fresh("fraction")
        # some history before the copy
        a.Quantity(1, "kilometer").to("mile")
        b = copy.deepcopy(a)
        probes = [("1 foot", "meter"), ("3 mile", "kilometer"), ("2 pound", "gram"), ("1 hour", "second")]

        def observe(r):
            out = []
            for s, d in probes:
                out.append(capture(lambda: frac_s(Fraction(r.Quantity(s).to(d).magnitude))))
            for n in ("zork", "blip", "smoot"):
                out.append(capture(lambda: frac_s(Fraction(r.Quantity(1, n).to_root_units().magnitude))))
            out.append(capture(lambda: sorted(r.get_group("root").members & {"zork", "blip", "smoot"})))
            out.append(capture(lambda: str(r.get_base_units("inch")[1])))
            return out
        ref_a, ref_b = observe(a), observe(b)
        if ref_a != ref_b:
            v.append("C18 a deep-copied registry answers differently from its source right after the copy")
        # groups and systems of the copy belong to the copy: a group created in one registry appears there and only there
        for made_in, other_reg, lbl in ((b, a, "the copy"), (a, b, "the source")):
            gname = "c18_" + ("copy" if made_in is b else "src")
            try:
                g = made_in.get_group(gname)
                g.add_units("foot")
                got = sorted(str(x) for x in made_in.get_compatible_units("meter", gname))
                if got != ["foot"] or gname in other_reg._groups or gname not in made_in._groups:
                    v.append(f"C18 a group created in {lbl} of a deep-copied pair: restricted listing {got}, known to the other registry: "
                             f"{gname in other_reg._groups}, known to its own: {gname in made_in._groups}")
            except Exception as exc:  # noqa: BLE001
                v.append(f"C18 creating the group {gname} in {lbl} of a deep-copied pair raised {type(exc).__name__}: {exc}")
        # settings held in mutable containers belong to each registry: a preprocessor appended on one side is not seen by the other
        for made_in, other_reg, lbl in ((b, a, "the copy"), (a, b, "the source")):
            word = "c18carres" + ("b" if made_in is b else "a")
            n_other = len(other_reg.preprocessors)
            made_in.preprocessors.append(lambda s_, w=word: s_.replace(w, "meter**2"))
            try:
                other_reg.parse_expression("3 " + word)
                v.append(f"C18 a preprocessor appended to {lbl} of a deep-copied pair is applied by the other registry too")
            except Exception:  # noqa: BLE001
                pass
            if len(other_reg.preprocessors) != n_other or made_in.preprocessors is other_reg.preprocessors:
                v.append(f"C18 deep-copied pair: the preprocessors list is shared (appending to {lbl} changed the other's)")
        for r_, lbl in ((a, "source"), (b, "copy")):
            for kind, objs in (("group", r_._groups), ("system", r_._systems)):
                wrong = [n for n, o in objs.items() if getattr(type(o), "_REGISTRY", r_) is not r_]
                if wrong:
                    v.append(f"C18 deep-copied pair: the {kind} objects {wrong[:3]} of the {lbl} are bound to the other registry")
                    break
        target, other, ref_other = (a, b, ref_b) if rng.random() < 0.5 else (b, a, ref_a)
        for _ in range(rng.randint(1, 4)):
            r = rng.random()
            if r < 0.4:
                target.define(f"{rng.choice(['zork', 'blip', 'smoot'])}{''} = {rng.randint(2, 9)} * {rng.choice(['meter', 'second'])}")
            elif r < 0.6:
                target.default_system = rng.choice(["cgs", "imperial", "mks"])
            elif r < 0.8:
                ctx = __import__("pint").Context(f"c{rng.randint(0, 9)}")
                ctx.redefine("foot = 0.5 * meter")
                try:
                    target.add_context(ctx)
                    target.enable_contexts(ctx.name)
                except Exception:  # noqa: BLE001
                    pass
            else:
                target.Quantity(1, "megaparsec").to("kilometer")
            got = observe(other)
            if got != ref_other:
                v.append(f"C18 after changing one of a deep-copied pair of registries the other one answers {got}, before {ref_other}")
                break
        try:
            r = a.Quantity(1, "meter") + b.Quantity(1, "meter")
            v.append(f"C18 quantities of a registry and of its deep copy were added: {r!r}")
        except ValueError:
            pass
        except Exception as exc:  # noqa: BLE001
            v.append(f"C18 adding quantities of a registry and of its deep copy raised {type(exc).__name__}")
        return v

    def cross_process_probe(self):
        """objects pickled in ANOTHER interpreter (other string-hash seed) after they were hashed and compared there: loaded here
        they equal, and hash like, the objects built here from the same text"""
        import base64
        import pickle
        import subprocess
        v = []
        code = ("import sys, pickle, base64; sys.path.insert(0, %r); import pint\n"
                "u = pint.get_application_registry()\n"
                "objs = [u.Unit('kilometer / second'), u.Quantity(3, 'kilometer / second'), u.Unit('meter / second ** 2'),\n"
                "        pint.util.UnitsContainer(kilometer=1, second=-1), u.Unit('kilogram * meter ** 2 / second ** 2').dimensionality,\n"
                "        u.Quantity(2.5, 'microfarad'), (u.meter * u.second) ** 0.5]\n"
                "for o in objs:\n    hash(o), o == o, {o: 1}\n"
                "print(base64.b64encode(pickle.dumps(objs, int(sys.argv[1]))).decode())") % core.REPO
        app = __import__("pint").get_application_registry()
        local = [app.Unit("kilometer / second"), app.Quantity(3, "kilometer / second"), app.Unit("meter / second ** 2"),
                 __import__("pint").util.UnitsContainer(kilometer=1, second=-1), app.Unit("kilogram * meter ** 2 / second ** 2").dimensionality,
                 app.Quantity(2.5, "microfarad"), (app.meter * app.second) ** 0.5]
        for seed in ("1", "2"):
            for proto in (2, 5):
                try:
                    r = subprocess.run([sys.executable, "-c", code, str(proto)], capture_output=True, text=True, timeout=300,
                                       env=dict(os.environ, PYTHONHASHSEED=seed))
                    loaded = pickle.loads(base64.b64decode(r.stdout.strip().splitlines()[-1]))
                except Exception as exc:  # noqa: BLE001
                    v.append(f"C18 cross-process probe (seed {seed}, protocol {proto}) could not run: {type(exc).__name__}: {exc}")
                    continue
                for a, b in zip(loaded, local):
                    ua, ub = getattr(a, "units", a), getattr(b, "units", b)
                    if not (a == b and ua == ub and hash(ua) == hash(ub) and {ub: 1}.get(ua) == 1):
                        v.append(f"C18/C04 {b!r} pickled in another interpreter (PYTHONHASHSEED={seed}, protocol {proto}) after being hashed "
                                 f"there: loaded == built here: {a == b}, units equal: {ua == ub}, hashes equal: {hash(ua) == hash(ub)}")
                        break
        return v[:4]

    def oracle_lazy(self):
        import pint
        v = []
        lazy = pint.LazyRegistry()
        explicit = regs.fresh("float")
        app = pint.application_registry
        for s, d in [("1 foot", "meter"), ("3 mile", "kilometer"), ("2 pound", "gram"), ("20 degC", "kelvin"), ("1 kilometer/hour", "m/s")]:
            want = capture(lambda: (lambda q: (q.magnitude, str(q.units)))(explicit.Quantity(s).to(d)))
            for name, r in (("LazyRegistry()", lazy), ("application_registry", app)):
                got = capture(lambda: (lambda q: (q.magnitude, str(q.units)))(r.Quantity(s).to(d)))
                if got != want:
                    v.append(f"C18 {name}: {s} -> {d} gives {got}, an explicitly built registry {want}")
        for name, r in (("LazyRegistry()", lazy), ("application_registry", app)):
            try:
                if str(r.parse_units("km/h")) != str(explicit.parse_units("km/h")) or r.get_name("mV") != explicit.get_name("mV"):
                    v.append(f"C18 {name}: parse_units / get_name differ from an explicitly built registry")
                q1, q2 = r.Quantity(1, "meter"), r.Quantity(2, "meter")
                if (q1 + q2).magnitude != 3:
                    v.append(f"C18 {name}: objects of the same lazily built registry do not combine")
            except Exception as exc:  # noqa: BLE001
                v.append(f"C18 {name}: raised {type(exc).__name__}: {exc}")
        # every entry point as the FIRST use of a not yet built lazy registry: same answer as the explicitly built one
        firsts = [("'meter' in r", lambda r: "meter" in r), ("'zork9' in r", lambda r: "zork9" in r),
                  ("len(list(iter(r))) > 100", lambda r: len(list(iter(r))) > 100), ("r['meter']", lambda r: str(r["meter"])),
                  ("r('2 m')", lambda r: str(r("2 m"))), ("r.meter", lambda r: str(r.meter)), ("r.default_system", lambda r: r.default_system),
                  ("r.get_dimensionality('newton')", lambda r: str(r.get_dimensionality("newton")))]
        for label, fn in firsts:
            got = capture(lambda: fn(pint.LazyRegistry()))
            want = capture(lambda: fn(explicit))
            if got != want:
                v.append(f"C18 first use of a lazy registry, {label}: {got}; an explicitly built registry gives {want}")
        return v
