"""C14 — systems and groups select base units and members exactly as declared."""
from __future__ import annotations

import logging
from fractions import Fraction

from . import regs
from .core import Property, capture, frac_s, canon, err_name

SYSTEMS = ["SI", "mks", "cgs", "atomic", "Planck", "imperial", "US"]


class Check(Property):
    ID = "C14"
    PROPS_FILE = "PintModel/Props/C14.lean"
    MODULE = "PintModel.Props.C14Memo"
    EXTRA_PROPS_FILES = ["PintModel/Props/C14Memo.lean"]
    EXTRA_LEAN_FILES = ["PintModel/Proofs/RuleInversion.lean", "PintModel/Model/DepMemo.lean"]
    RULE = ("canonical units x {SI, mks, cgs, atomic, Planck, imperial, US, none}: get_base_units(system=...), "
            "to_base_units after switching the default system, idempotence; every group's and system's members; "
            "compatible units restricted to every group/system for sampled units; edit sequences (new groups, "
            "add_units, default_system changes incl. None) with probes after every step; non-trivial = distinct "
            "(unit, system) whose base units differ from the root units, and distinct membership queries")
    PARTIAL = ["base-unit factors of units defined through non-integer powers (Planck/atomic systems) are compared in "
               "float by the oracle only", "attribute access through ureg.sys is checked by the oracle only"]

    def cases(self):
        P = regs.pools()
        rng = self.rng
        out = []
        units = P.rational
        pick = units if self.tier != "quick" else rng.sample(units, 120)
        for n in pick:
            for s in (SYSTEMS if self.tier != "quick" else rng.sample(SYSTEMS, 3)) + [None]:
                u = [[n, "1/1"]]
                op = {"op": "gs", "f": "base", "u": u}
                if s:
                    op["system"] = s
                else:
                    op["system"] = "mks"
                self.bump("base units")
                out.append({"kind": "base", "u": u, "system": op["system"], "ops": [op]})
        # compound units
        for _ in range(150 if self.tier == "quick" else 2000):
            a = P.compound(rng, units, nmax=3, spell=False)
            u = [[k, frac_s(v)] for k, v in a.items()]
            s = rng.choice(["SI", "mks", "cgs", "imperial", "US"])     # atomic/Planck: float overflow on compound powers
            self.bump("base units (compound)")
            out.append({"kind": "base", "u": u, "system": s, "ops": [{"op": "gs", "f": "base", "u": u, "system": s}]})
        groups = [g["name"] for g in P.proj.groups] + ["root", "international"]
        for g in groups:
            self.bump("group members")
            out.append({"kind": "members", "g": g, "ops": [{"op": "gs", "f": "members", "g": g}]})
        for s in SYSTEMS:
            self.bump("system members")
            out.append({"kind": "sys_members", "s": s, "ops": [{"op": "gs", "f": "sys_members", "s": s}]})
        for _ in range(60 if self.tier == "quick" else 800):
            n = rng.choice(P.mult)
            where = rng.choice(groups + SYSTEMS)
            self.bump("compatible units")
            out.append({"kind": "compat", "u": [[n, "1/1"]], "in": where,
                        "ops": [{"op": "gs", "f": "compat", "u": [[n, "1/1"]], "in": where}]})
        # attribute access through a system: the system's variant of a name (every spelling the registry knows as
        # "<system>_<item>": names, aliases, plurals) else the plain unit
        variants = []
        for key in P.proj.unit_by_key:
            for sname in SYSTEMS:
                if key.startswith(sname + "_") and len(key) > len(sname) + 1:
                    variants.append((sname, key[len(sname) + 1:]))
        plain = [n for n in rng.sample(P.mult, 12) if n.isidentifier()]
        picks = variants if self.tier != "quick" else rng.sample(variants, min(60, len(variants)))
        for sname, item in picks + [(rng.choice(SYSTEMS), n) for n in plain] + [(sn, it + "s") for sn, it in picks[:10]]:
            if not item.isidentifier():
                continue
            self.bump("system attribute")
            out.append({"kind": "attr", "s": sname, "item": item, "ops": [{"op": "gs", "f": "attr", "s": sname, "item": item}]})
        # systems defined by the user: both rule forms, new units that are powers or compounds of root units
        SHORT = {"liter": "meter", "hertz": "second", "are": "meter", "inch": "meter", "pound": "gram", "hour": "second",
                 "kilometer": "meter", "milligram": "gram"}
        LONG = [("g_0", "meter"), ("newton", "gram"), ("speed_of_light", "meter"), ("joule", "gram"), ("watt", "second"),
                ("knot", "meter"), ("pascal", "gram"), ("standard_gravity", "second"), ("poise", "second"), ("dyne", "meter")]
        for i in range(30 if self.tier == "quick" else 500):
            rules, olds = [], set()
            for _ in range(rng.randint(1, 3)):
                if rng.random() < 0.45:
                    new = rng.choice(sorted(SHORT))
                    old, written = SHORT[new], None
                else:
                    new, old = rng.choice(LONG)
                    written = old
                if old in olds or any(new == r_[0] for r_ in rules):
                    continue
                olds.add(old)
                rules.append([new, written])
            # rules are applied in one pass: a rule whose new unit involves a root unit that another rule replaces has no
            # defined meaning (the rules would depend on each other) — such rules are dropped
            def others(new, old):
                return set(P.proj.root({new: Fraction(1)})[1]) - {old}
            rules = [[n_, w_] for n_, w_ in rules if w_ is None or not (others(n_, w_) & olds)]
            if not rules:
                continue
            name = f"NS{i}"
            probes = rng.sample(["meter", "second", "gram", "joule", "newton", "kilometer", "hour", "liter", "pascal", "watt", "mile",
                                 "pound", "hertz", "knot"], 5)
            ops = [{"op": "reset"}, {"op": "gs", "f": "add_system", "sys": {"name": name, "using": ["international"], "rules": rules}}]
            ops += [{"op": "gs", "f": "base", "u": [[n, "1/1"]], "system": name} for n in probes] + [{"op": "reset"}]
            self.bump("user-defined system")
            out.append({"kind": "newsys", "name": name, "rules": rules, "probes": probes, "ops": ops})
        # cyclic use of groups is refused and leaves everything usable (cycles of length 1, 2, 3, 4 among new groups)
        for i in range(8 if self.tier == "quick" else 100):
            self.bump("cyclic group use")
            out.append({"kind": "cycle", "n": rng.choice([1, 2, 3, 3, 4]), "units": rng.sample(P.mult, 4), "i": i, "ops": []})
        # edit sequences
        for i in range(25 if self.tier == "quick" else 400):
            steps = []
            ops = [{"op": "reset"}]
            gname = f"NG{i}"
            us = rng.sample(P.mult, 3)
            used = rng.sample([g["name"] for g in P.proj.groups], rng.randint(0, 2))
            inner = None
            if rng.random() < 0.5:
                # a new group used by the new group: edits of the inner one must show through the outer one
                inner = gname + "_in"
                ius = rng.sample(P.mult, 2)
                steps.append({"f": "add_group", "name": inner, "units": ius, "using": []})
                ops.append({"op": "gs", "f": "add_group", "name": inner, "units": ius, "using": []})
                used = used + [inner]
            steps.append({"f": "add_group", "name": gname, "units": us, "using": used})
            ops.append({"op": "gs", "f": "add_group", "name": gname, "units": us, "using": used})
            if inner:
                for _ in range(rng.randint(1, 3)):
                    steps.append({"f": "members", "g": gname})
                    ops.append({"op": "gs", "f": "members", "g": gname})
                    nu = rng.sample(P.mult, 2)
                    steps.append({"f": "add_units", "g": inner, "units": nu})
                    ops.append({"op": "gs", "f": "add_units", "g": inner, "units": nu})
                    steps.append({"f": "members", "g": gname})
                    ops.append({"op": "gs", "f": "members", "g": gname})
            for _ in range(rng.randint(2, 6)):
                r = rng.random()
                if r < 0.3:
                    g = rng.choice([gname] + used) if used else gname
                    nu = rng.sample(P.mult, 2)
                    steps.append({"f": "add_units", "g": g, "units": nu})
                    ops.append({"op": "gs", "f": "add_units", "g": g, "units": nu})
                elif r < 0.55:
                    s = rng.choice(SYSTEMS + [None])
                    steps.append({"f": "default_system", "s": s})
                    o = {"op": "gs", "f": "default_system"}
                    if s:
                        o["s"] = s
                    ops.append(o)
                elif r < 0.8:
                    n = rng.choice(units)
                    steps.append({"f": "base", "u": [[n, "1/1"]]})
                    ops.append({"op": "gs", "f": "base", "u": [[n, "1/1"]]})
                else:
                    g = rng.choice([gname] + used + ["root"])
                    steps.append({"f": "members", "g": g})
                    ops.append({"op": "gs", "f": "members", "g": g})
            if rng.random() < 0.6:
                # the same unit asked before and after every change of the default system: a switch takes effect at once
                n = rng.choice(["inch", "mile", "pound", "foot", "newton", "gallon"] + [rng.choice(units)])
                for sname in [None] + rng.sample(SYSTEMS + [None], rng.randint(2, 3)):
                    if sname is not None or rng.random() < 0.5:
                        steps.append({"f": "default_system", "s": sname})
                        o = {"op": "gs", "f": "default_system"}
                        if sname:
                            o["s"] = sname
                        ops.append(o)
                    steps.append({"f": "base", "u": [[n, "1/1"]]})
                    ops.append({"op": "gs", "f": "base", "u": [[n, "1/1"]]})
            steps.append({"f": "members", "g": gname})
            ops.append({"op": "gs", "f": "members", "g": gname})
            ops.append({"op": "reset"})
            self.bump("edit sequence")
            out.append({"kind": "seq", "steps": steps, "ops": ops})
        return out

    # ------------------------------------------------------------------ implementation
    def impl(self, c):
        k = c["kind"]
        u = regs.ureg("fraction")
        if k == "base":
            def run():
                f, b = u.get_base_units(regs.pint_uc(u, c["u"], canonical=True), system=c["system"])
                if isinstance(f, float):
                    return {"float": f}
                return [frac_s(Fraction(f)), sorted([kk, frac_s(regs.to_frac(v))] for kk, v in b._units.items())]
            return [capture(run)]
        if k == "members":
            return [capture(lambda: sorted(u.get_group(c["g"], False).members))]
        if k == "sys_members":
            return [capture(lambda: sorted(u.get_system(c["s"], False).members))]
        if k == "compat":
            return [capture(lambda: sorted(str(x) for x in u.get_compatible_units(c["u"][0][0], c["in"])))]
        if k == "attr":
            def run():
                un = getattr(getattr(u.sys, c["s"]), c["item"])
                names = list(un._units)
                return names[0] if len(names) == 1 else str(un)
            return [capture(run)]
        if k == "cycle":
            return []
        if k == "newsys":
            r = regs.fresh("fraction")
            lines = [f"@system {c['name']} using international"] + [f"    {n}:{o}" if o else f"    {n}" for n, o in c["rules"]] + ["@end"]
            outs = [{"ok": None}, capture(lambda: r.define("\n".join(lines)))]
            for n in c["probes"]:
                def gb(n=n):
                    f, b = r.get_base_units(r.UnitsContainer({n: 1}), system=c["name"])
                    if isinstance(f, float):
                        return {"float": f, "units": sorted([kk, float(v)] for kk, v in b._units.items())}
                    return [frac_s(Fraction(f)), sorted([kk, frac_s(regs.to_frac(v))] for kk, v in b._units.items())]
                outs.append(capture(gb))
            outs.append({"ok": None})
            return outs
        # edit sequence on a fresh registry
        r = regs.fresh("fraction")
        outs = [{"ok": None}]
        for s in c["steps"]:
            if s["f"] == "add_group":
                def ag():
                    g = r.Group(s["name"])
                    g.add_units(*s["units"])
                    if s["using"]:
                        g.add_groups(*s["using"])
                    return None
                outs.append(capture(ag))
            elif s["f"] == "add_units":
                outs.append(capture(lambda: r.get_group(s["g"], False).add_units(*s["units"])))
            elif s["f"] == "default_system":
                def ds():
                    r.default_system = s["s"]
                outs.append(capture(ds))
            elif s["f"] == "base":
                def gb():
                    f, b = r.get_base_units(regs.pint_uc(r, s["u"], canonical=True))
                    if isinstance(f, float):
                        return {"float": f}
                    return [frac_s(Fraction(f)), sorted([kk, frac_s(regs.to_frac(v))] for kk, v in b._units.items())]
                outs.append(capture(gb))
            else:
                outs.append(capture(lambda: sorted(r.get_group(s["g"], False).members)))
        outs.append({"ok": None})
        return outs

    def same(self, c, io, mo):
        if c["kind"] == "cycle":
            return True
        for i, m in zip(io, mo):
            if i == {"ok": None} or m == {"ok": None}:
                if ("err" in i) != ("err" in m):
                    return False
                continue
            if m.get("err") == "Inexact":
                continue
            if isinstance(i.get("ok"), dict) and "float" in i["ok"]:
                continue
            if "err" in i and "err" in m:
                continue
            if canon(i) != canon(m):
                return False
        return len(io) == len(mo)

    def nontrivial(self, c, io):
        return canon({k: v for k, v in c.items() if k != "ops"})

    # ------------------------------------------------------------------ oracle
    def constructor_probe(self):
        """the system chosen when the registry is built (UnitRegistry(system=...)) is the default system: base units and
        attribute-free conversions equal those of a registry whose default_system was set afterwards, and those asked for
        with system=<name> explicitly"""
        import pint
        v = []
        ref = regs.fresh("float")
        for name in ("cgs", "imperial", "US", "SI", "mks", "atomic"):
            try:
                built = pint.UnitRegistry(system=name)
                later = pint.UnitRegistry()
                later.default_system = name
            except Exception as exc:  # noqa: BLE001
                v.append(f"C14 UnitRegistry(system={name!r}) raised {type(exc).__name__}: {exc}")
                continue
            if built.default_system != name:
                v.append(f"C14 UnitRegistry(system={name!r}).default_system is {built.default_system!r}")
            for un in ("inch", "newton", "pound", "mile / hour", "joule"):
                def show(fb):
                    f, b = fb
                    return (float(f"{float(f):.10g}"), str(b))
                a = show(built.get_base_units(un))
                b_ = show(later.get_base_units(un))
                c_ = show(ref.get_base_units(un, system=name))
                d_ = show((lambda q: (q.magnitude, q.units))(built.Quantity(1.0, un).to_base_units()))
                if not (a == b_ == c_ == d_):
                    v.append(f"C14 base units of {un} under {name}: built with system= {a}, default_system set later {b_}, asked with "
                             f"system={name!r} {c_}, to_base_units {d_}")
                    break
        return v[:6]

    def refused_edit_probe(self):
        """an edit that is refused part-way (removing a unit / a used group that is not there, after others that are): whatever the
        group holds afterwards, its members - and those of every group and system using it - are the closure of what it holds"""
        v = []
        try:
            u = regs.fresh("float")
            inner, outer, side = u.get_group("g14in"), u.get_group("g14out"), u.get_group("g14side")
            inner.add_units("meter", "second", "gram")
            side.add_units("inch", "foot")
            outer.add_units("kelvin")
            outer.add_groups("g14in", "g14side")

            def closure(g):
                out = set(g._unit_names)
                for n in g._used_groups:
                    out |= closure(u.get_group(n))
                return out

            def judge(label):
                for g in (inner, outer, side):
                    got, want = set(g.members), closure(g)
                    if got != want:
                        v.append(f"C14 {label}: group {g.name} holds units {sorted(g._unit_names)} and uses {sorted(g._used_groups)}, so its "
                                 f"members are {sorted(want)}; members answers {sorted(got)}")
            judge("after building three groups")
            for label, fn in (("inner.remove_units('meter', 'nope')", lambda: inner.remove_units("meter", "nope")),
                              ("outer.remove_groups('g14side', 'zzz')", lambda: outer.remove_groups("g14side", "zzz")),
                              ("inner.remove_units('nope', 'second')", lambda: inner.remove_units("nope", "second")),
                              ("outer.remove_units('kelvin', 'kelvin')", lambda: outer.remove_units("kelvin", "kelvin"))):
                try:
                    fn()
                except Exception:  # noqa: BLE001
                    pass
                judge("after the refused " + label)
        except Exception as exc:  # noqa: BLE001
            v.append(f"C14 refused-edit probe raised {type(exc).__name__}: {exc}")
        return v[:6]

    def oracle(self, c):
        P = regs.pools()
        proj = P.proj
        v = []
        if not getattr(self, "_ctor_done", False):
            self._ctor_done = True
            cv = self.constructor_probe() + self.refused_edit_probe()
            if cv:
                return cv
        u = regs.ureg("fraction")
        k = c["kind"]
        if k == "cycle":
            return self.oracle_cycle(c)
        if k == "newsys":
            return self.oracle_newsys(c)
        if k == "base":
            sysdef = next(s for s in proj.systems if s["name"] == c["system"])
            declared = {r[0] for r in sysdef["rules"]}
            replaced = set()
            for new, old in sysdef["rules"]:
                if old:
                    replaced.add(old)
                else:
                    try:
                        _, rb = proj.root({new: Fraction(1)})
                        replaced |= set(rb)
                    except regs.D.DefError:
                        pass
            uc = regs.pint_uc(u, c["u"], canonical=True)
            tag = f"C14 base units of {c['u']} in {c['system']}"
            try:
                q = u.Quantity(Fraction(7, 2), u.Unit(uc))
                f, b = u.get_base_units(uc, system=c["system"])
                names = set(b._units)
                rootnames = set(u.get_root_units(uc)[1]._units)
                extra = names - declared - (rootnames - replaced)
                if extra:
                    v.append(f"{tag}: uses {sorted(extra)} which are neither declared base units of the system nor unreplaced root units")
                if u.Unit(b).dimensionality != u.Unit(uc).dimensionality:
                    v.append(f"{tag}: dimensionality changed")
                inexact = any(P.uses_fractional_power(nm) for nm in names if nm in proj.unit_by_key) or c["system"] in ("atomic", "Planck")
                if not isinstance(f, float):
                    q2 = u.Quantity(Fraction(7, 2) * f, b)
                    r1, r2 = q.to_root_units(), q2.to_root_units()
                    if inexact or isinstance(r1.magnitude, float) or isinstance(r2.magnitude, float):
                        a1, a2 = float(r1.magnitude), float(r2.magnitude)
                        if r1.units != r2.units or abs(a1 - a2) > 1e-9 * max(abs(a1), abs(a2)):
                            v.append(f"{tag}: physical value changed: {q!r} -> {q2!r}")
                    elif r1.magnitude != r2.magnitude or r1.units != r2.units:
                        v.append(f"{tag}: physical value changed: {q!r} -> {q2!r}")
                    f2, b2 = u.get_base_units(b, system=c["system"])
                    if b2 != b or (not isinstance(f2, float) and not inexact and f2 != 1):
                        v.append(f"{tag}: not idempotent: base units of {b} are {f2} {b2}")
            except Exception as exc:  # noqa: BLE001
                if not (c["system"] in ("atomic", "Planck") and type(exc).__name__ in ("OverflowError", "ValueError")):
                    v.append(f"{tag}: raised {type(exc).__name__}: {exc}")
        elif k in ("members", "sys_members"):
            def own(gname):
                g = next((g for g in proj.groups if g["name"] == gname), None)
                if g is None:
                    return None
                out = set()
                for b in g["body"]:
                    if b["kind"] == "unit":
                        out.add(b["name"])
                        if b["conv"] == "offset":
                            out.add("delta_" + b["name"])
                for used in g["using"]:
                    out |= own(used) or set()
                return out
            if k == "members" and c["g"] not in ("root", "international"):
                want = own(c["g"])
                got = set(u.get_group(c["g"], False).members)
                if want is not None and got != want:
                    v.append(f"C14 group {c['g']}: members {sorted(got ^ want)[:6]} differ from the declared closure")
            if k == "sys_members":
                sysdef = next(s for s in proj.systems if s["name"] == c["s"])
                want = set()
                for gname in sysdef["using"]:
                    if gname in ("root", "international"):
                        want |= set(u.get_group(gname, False).members)
                    else:
                        want |= own(gname) or set()
                got = set(u.get_system(c["s"], False).members)
                if got != want:
                    v.append(f"C14 system {c['s']}: members differ from the union of its groups: {sorted(got ^ want)[:6]}")
        elif k == "compat":
            n = c["u"][0][0]
            where = c["in"]
            members = set(u.get_system(where, False).members) if where in SYSTEMS else set(u.get_group(where, False).members)
            dim = proj.dimensionality({n: Fraction(1)})
            same = set()
            for uu in proj.units:
                try:
                    if proj.dimensionality({uu["name"]: Fraction(1)}) == dim:
                        same.add(uu["name"])
                        if uu["conv"] == "offset":
                            same.add("delta_" + uu["name"])
                except regs.D.DefError:
                    pass
            want = same & members
            got = {str(x) for x in u.get_compatible_units(n, where)}
            if got != want:
                v.append(f"C14 compatible units of {n} in {where}: {sorted(got ^ want)[:6]} differ from the same-dimension members")
        elif k == "attr":
            # independent reader: does "<system>_<item>" resolve?  then that unit, else the plain one
            def resolve(name):
                try:
                    pf, uu = P.proj.resolve(name)
                    return (pf["name"] if pf else "") + uu["name"]
                except regs.D.DefError:
                    return None
            want = resolve(c["s"] + "_" + c["item"]) or resolve(c["item"])
            try:
                un = getattr(getattr(u.sys, c["s"]), c["item"])
                got = list(un._units)[0] if len(un._units) == 1 else str(un)
            except Exception as exc:  # noqa: BLE001
                got = type(exc).__name__
            if want is not None and got != want:
                v.append(f"C14 ureg.sys.{c['s']}.{c['item']} is {got}, the system's variant / plain unit is {want}")
        elif k == "seq":
            v += self.oracle_seq(c)
        return v

    def oracle_cycle(self, c):
        v = []
        r = regs.fresh("float")
        n = c["n"]
        names = [f"CY{c['i']}_{j}" for j in range(n)]
        groups = []
        for nm, un in zip(names, c["units"]):
            g = r.Group(nm)
            g.add_units(un)
            groups.append(g)
        tag = f"C14 groups {names} used in a cycle of length {n}"
        try:
            for j in range(n - 1):
                groups[j].add_groups(names[j + 1])
        except Exception as exc:  # noqa: BLE001
            return [f"{tag}: building the chain raised {type(exc).__name__}: {exc}"]
        try:
            # (the closing call also names an innocent group first: a refused call installs nothing)
            extra = r.Group(f"CY{c['i']}_extra")
            extra.add_units("fathom")
            groups[-1].add_groups(extra.name, names[0])
            v.append(f"{tag}: closing the cycle was accepted")
        except ValueError:
            pass
        except BaseException as exc:  # noqa: BLE001
            v.append(f"{tag}: closing the cycle raised {type(exc).__name__} instead of ValueError")
        for j, g in enumerate(groups):
            try:
                got = set(g.members)
                want = set(c["units"][j:n])
                if got != want:
                    v.append(f"{tag}: members of {names[j]} are {sorted(got)} after the refused cycle, expected {sorted(want)}")
            except BaseException as exc:  # noqa: BLE001
                v.append(f"{tag}: members of {names[j]} raised {type(exc).__name__} after the refused cycle")
        try:
            set(r.get_group("root").members)
        except BaseException as exc:  # noqa: BLE001
            v.append(f"{tag}: root.members raised {type(exc).__name__} after the refused cycle")
        return v

    def oracle_newsys(self, c):
        """a user-defined system: every unit is expressed in the declared base units and the unreplaced root units only, with
        the same dimensionality and the same physical value (judged through the independent reader's root units)"""
        import math
        P = regs.pools()
        proj = P.proj
        v = []
        r = regs.fresh("fraction")      # exact exponents: a rule such as watt:second gives thirds
        lines = [f"@system {c['name']} using international"] + [f"    {n}:{o}" if o else f"    {n}" for n, o in c["rules"]] + ["@end"]
        tag0 = f"C14 system {c['name']} with rules {c['rules']}"
        logging.disable(logging.CRITICAL)
        try:
            try:
                r.define("\n".join(lines))
            except Exception as exc:  # noqa: BLE001
                return [f"{tag0}: definition raised {type(exc).__name__}: {exc}"]
            declared = {n for n, _ in c["rules"]}
            replaced = set()
            for n, o in c["rules"]:
                replaced.add(o if o else next(iter(proj.root({n: Fraction(1)})[1])))
            for n in c["probes"]:
                tag = f"{tag0}: base units of {n}"
                try:
                    f, b = r.get_base_units(n, system=c["name"])
                except Exception as exc:  # noqa: BLE001
                    v.append(f"{tag}: raised {type(exc).__name__}: {exc}")
                    continue
                names = {k_: float(e) for k_, e in b._units.items()}
                fa, ra = proj.root({n: Fraction(1)})
                roots = set(ra)
                for n_, _ in c["rules"]:
                    roots |= set(proj.root({n_: Fraction(1)})[1])       # a rule new:old brings in the other root units of `new`
                extra = set(names) - declared - (roots - replaced)
                if extra:
                    v.append(f"{tag}: {dict(names)} uses {sorted(extra)}, neither declared base units nor unreplaced root units")
                # root expansion of the answer by the independent reader (float exponents)
                tot, fac = {}, float(f)
                for k_, e in names.items():
                    fk, rk = proj.root({k_: Fraction(1)})
                    fac *= (fk.approx if isinstance(fk, regs.D.Irr) else float(fk)) ** e
                    for kk, ee in rk.items():
                        tot[kk] = tot.get(kk, 0.0) + float(ee) * e
                tot = {kk: ee for kk, ee in tot.items() if abs(ee) > 1e-9}
                want = {kk: float(ee) for kk, ee in ra.items()}
                if set(tot) != set(want) or any(abs(tot[kk] - want[kk]) > 1e-9 for kk in want):
                    v.append(f"{tag}: {f} {dict(names)} expands to the root units {tot}, {n} is {want}")
                elif not math.isclose(fac, fa.approx if isinstance(fa, regs.D.Irr) else float(fa), rel_tol=1e-9):
                    v.append(f"{tag}: {f} {dict(names)} is {fac} in root units, {n} is {float(fa)}")
        finally:
            logging.disable(logging.NOTSET)
        return v

    def oracle_seq(self, c):
        """default-system switches take effect immediately; added units appear in every using group"""
        v = []
        r = regs.fresh("fraction")
        cur = r.default_system
        own = {}
        pending = []

        def closure(reg, gname, seen=None):
            seen = seen or set()
            if gname in seen:
                return set()
            seen.add(gname)
            g = reg._groups[gname]
            out = set(g._unit_names)
            for x in g._used_groups:
                out |= closure(reg, x, seen)
            return out
        steps = list(c["steps"])
        for s0 in [x for x in c["steps"] if x["f"] == "add_units"]:
            steps.append({"f": "sweep", "g": s0["g"], "units": s0["units"]})
        for s in steps:
            try:
                if s["f"] == "add_group":
                    g = r.Group(s["name"])
                    g.add_units(*s["units"])
                    if s["using"]:
                        g.add_groups(*s["using"])
                    own[s["name"]] = set(s["units"])
                elif s["f"] == "add_units":
                    r.get_group(s["g"], False).add_units(*s["units"])
                    own.setdefault(s["g"], set()).update(s["units"])
                    pending.append(s)
                elif s["f"] == "members":
                    grp = r.get_group(s["g"], False)
                    got = set(grp.members)
                    want = closure(r, s["g"])
                    if got != want:
                        v.append(f"C14 after the edits so far group {s['g']}.members lacks {sorted(want - got)[:4]} / has extra "
                                 f"{sorted(got - want)[:4]} compared with the closure of its units and used groups")
                elif s["f"] == "sweep":
                    for name, grp in r._groups.items():
                        if name == s["g"] or grp.is_used_group(s["g"]):
                            if not set(s["units"]) <= set(grp.members):
                                v.append(f"C14 after add_units({s['g']}, {s['units']}) group {name} (which uses it) lacks them")
                    for sname, sy in r._systems.items():
                        uses = any(gn == s["g"] or (gn in r._groups and r._groups[gn].is_used_group(s["g"])) for gn in sy._used_groups)
                        if uses and not set(s["units"]) <= set(sy.members):
                            v.append(f"C14 [known finding F10] after add_units({s['g']}, ...) system {sname} (which uses it) lacks them")
                elif s["f"] == "default_system":
                    r.default_system = s["s"]
                    cur = s["s"]
                elif s["f"] == "base":
                    uc = regs.pint_uc(r, s["u"], canonical=True)
                    got = r.get_base_units(uc)
                    want = r.get_base_units(uc, system=cur) if cur else r.get_root_units(uc)
                    fresh = regs.ureg("fraction")
                    want2 = fresh.get_base_units(regs.pint_uc(fresh, s["u"], canonical=True), system=cur) if cur else fresh.get_root_units(regs.pint_uc(fresh, s["u"], canonical=True))
                    # systems with irrational base units (atomic, Planck) go through float powers: tolerance
                    if str(got[1]) != str(want2[1]) or abs(Fraction(got[0]) - Fraction(want2[0])) > abs(Fraction(want2[0])) * Fraction(1, 10 ** 12):
                        v.append(f"C14 base units of {s['u']} with default system {cur}: {got}, a fresh registry with that system gives {want2}")
            except Exception as exc:  # noqa: BLE001
                v.append(f"C14 edit sequence step {s} raised {type(exc).__name__}: {exc}")
        return v
