"""C08 — unit names resolve deterministically: exact names first, then prefix+unit+plural."""
from __future__ import annotations
import logging

from fractions import Fraction

from . import regs
from .core import Property, capture, frac_s, canon


def mutate(rng, s):
    if not s:
        return "x"
    r = rng.random()
    i = rng.randrange(len(s))
    if r < 0.3:
        return s[:i] + s[i + 1:]
    if r < 0.6:
        return s[:i] + rng.choice("abcdefghijklmnopqrstuvwxyz_") + s[i:]
    if r < 0.8:
        return s[:i] + s[i].swapcase() + s[i + 1:]
    return s + rng.choice(["s", "es", "ss", "x"])


class Check(Property):
    ID = "C08"
    PROPS_FILE = "PintModel/Props/C08.lean"
    MODULE = "PintModel.Props.C08Sym"
    EXTRA_PROPS_FILES = ["PintModel/Props/C08Sym.lean"]
    EXTRA_LEAN_FILES = []
    RULE = ("strings: every defined spelling; sampled prefix+spelling+plural concatenations (thorough: all 72x958x2); "
            "mutated spellings and random strings; case variants with case_sensitive=False; lookup histories "
            "(including double-prefix strings after the inner prefixed unit was looked up); compound unit "
            "expressions with offset units (delta substitution). non-trivial = distinct strings that are not a "
            "canonical name")
    PARTIAL = ["history independence (`C08_history`) is stated for the model only through getName_resolve; the "
               "all-histories clause is checked by correspondence on generated histories",
               "tokenisation of compound expressions (Python tokenize + regex preprocessor) is glue covered by correspondence"]

    def cases(self):
        P = regs.pools()
        proj = P.proj
        rng = self.rng
        out = []

        def one(kind, s, cs=None):
            self.bump(kind)
            ops = [{"op": "parse_unit_name", "s": s}, {"op": "resolve", "s": s}, {"op": "get_symbol", "s": s}]
            if cs is not None:
                for o in ops:
                    o["cs"] = cs
            return {"kind": kind, "s": s, "cs": cs, "ops": ops}

        keys = list(proj.unit_by_key)
        for k in keys:
            out.append(one("direct", k))
        n = 5000 if self.tier == "quick" else 0
        if self.tier == "quick":
            for _ in range(n):
                pk = rng.choice(P.prefix_keys + [""])
                out.append(one("combo", pk + rng.choice(keys) + rng.choice(["", "s"])))
        else:
            for pk in P.prefix_keys:
                for k in keys:
                    for suf in ("", "s"):
                        out.append(one("combo", pk + k + suf))
        for _ in range(1500 if self.tier == "quick" else 20000):
            base = rng.choice(keys)
            if rng.random() < 0.5:
                base = rng.choice(P.prefix_keys) + base
            out.append(one("mutated", mutate(rng, base)))
        for _ in range(300 if self.tier == "quick" else 5000):
            out.append(one("random", "".join(rng.choice("abcdegkmnopstuµΩ_") for _ in range(rng.randint(1, 7)))))
        # case-insensitive lookup
        for _ in range(1200 if self.tier == "quick" else 20000):
            k = rng.choice(keys)
            v = rng.choice([k.lower(), k.upper(), k.title(), k.swapcase(), k])
            if rng.random() < 0.3:
                v = rng.choice(P.prefix_keys) + v
            out.append(one("casei", v, cs=False))
        # histories: earlier lookups must not change later answers (double prefixes stay undefined)
        for _ in range(250 if self.tier == "quick" else 4000):
            seq = []
            for _ in range(rng.randint(2, 5)):
                k = rng.choice(keys)
                p1 = rng.choice(P.prefix_keys)
                s1 = p1 + k
                seq.append(s1)
                if rng.random() < 0.6:
                    seq.append(rng.choice(P.prefix_keys) + s1)
                if rng.random() < 0.3:
                    seq.append(k + "s")
            self.bump("history")
            # afterwards the same family of spellings is asked with a per-call case-insensitive override: a unit registered
            # on the fly must not have become a stem (for prefixes, plurals or case folding) in that mode either
            probes = []
            for s1 in seq[:3]:
                probes += [rng.choice(P.prefix_keys) + s1, s1.upper(), s1.capitalize() + "s"]
            probes = [x for x in probes if x.isascii()]
            out.append({"kind": "history", "seq": seq, "probes": probes,
                        "ops": [{"op": "reset"}] + [{"op": "get_name", "s": s} for s in seq]
                        + [{"op": "get_name", "s": s, "cs": False} for s in probes] + [{"op": "reset"}]})
        # per-call case_sensitive overrides must not leak into later default-mode lookups of the same string
        for _ in range(300 if self.tier == "quick" else 4000):
            k = rng.choice(keys)
            v = rng.choice([k.upper(), k.lower(), k.swapcase(), k.title(), k])
            if rng.random() < 0.5:
                v = rng.choice(P.prefix_keys) + v
            if not (v.isidentifier() and v.isascii()):
                continue
            first = rng.choice([False, True])
            self.bump("mode mix")
            u1 = [[v, "1/1"]]
            out.append({"kind": "modemix", "s": v, "first": first,
                        "ops": [{"op": "reset"}, {"op": "parse_units", "u": u1, "cs": first, "as_delta": True},
                                {"op": "parse_units", "u": u1, "as_delta": True},
                                {"op": "parse_units", "u": u1, "cs": (not first), "as_delta": True}, {"op": "reset"}]})
        # compound expressions with delta substitution
        nm = P.nonmult
        for _ in range(400 if self.tier == "quick" else 5000):
            n_ = rng.randint(1, 3)
            items = {}
            for _ in range(n_):
                c = rng.choice(nm) if rng.random() < 0.4 else rng.choice(P.mult)
                s = rng.choice([k for k in P.spellings[c] if k.isidentifier() and k.isascii()] or [c])
                if s not in items:
                    items[s] = Fraction(rng.choice([1, 1, 1, 2, -1]))
            asd = rng.random() < 0.8
            u = [[k, frac_s(v)] for k, v in items.items()]
            self.bump("parse_units")
            out.append({"kind": "parse_units", "u": u, "as_delta": asd,
                        "ops": [{"op": "parse_units", "u": u, "as_delta": asd}]})
        return out

    # ------------------------------------------------------------------ implementation side
    _impl_reg = {}

    def reg(self, cs=True):
        if cs not in self._impl_reg:
            self._impl_reg[cs] = regs.fresh("fraction", case_sensitive=cs)
        return self._impl_reg[cs]

    def impl(self, c):
        if c["kind"] == "history":
            u = regs.fresh("float") if self.rng.random() < 0.15 or not hasattr(self, "_hreg") else self._hreg
            self._hreg = u
            return [{"ok": None}] + [capture(lambda s=s: u.get_name(s)) for s in c["seq"]] \
                + [capture(lambda s=s: u.get_name(s, case_sensitive=False)) for s in c.get("probes", [])] + [{"ok": None}]
        if c["kind"] == "modemix":
            if not hasattr(self, "_mixreg"):
                self._mixreg = regs.fresh("fraction")
            u = self._mixreg

            def pu(cs=None):
                def run():
                    r = u.parse_units_as_container(c["s"], case_sensitive=cs)
                    return [[k, frac_s(regs.to_frac(v))] for k, v in r.items()]
                return capture(run)
            return [{"ok": None}, pu(c["first"]), pu(None), pu(not c["first"]), {"ok": None}]
        if c["kind"] == "parse_units":
            u = self.reg(True)
            from .c01 import expr

            def run():
                r = u.parse_units_as_container(expr(c["u"]), as_delta=c["as_delta"])
                return [[k, frac_s(regs.to_frac(v))] for k, v in r.items()]
            return [capture(run)]
        cs = c["cs"]
        u = self.reg(True if cs is None else cs)
        s = c["s"]
        return [capture(lambda: [list(t) for t in u.parse_unit_name(s)]), capture(lambda: u.get_name(s)),
                capture(lambda: u.get_symbol(s))]

    def expect(self, c, mo):
        if c["kind"] == "modemix":
            return [{"ok": None}] + mo[1:-1] + [{"ok": None}]
        if c["kind"] == "history":
            return [{"ok": None}] + mo[1:-1] + [{"ok": None}]
        return mo

    def nontrivial(self, c, io):
        if c["kind"] in ("history", "parse_units"):
            return canon(c.get("seq") or c.get("u"))
        if c["kind"] == "modemix":
            return "mix:" + c["s"] + str(c["first"])
        return c["s"] + "|" + str(c["cs"])

    # ------------------------------------------------------------------ oracle
    def define_after_lookup_probe(self):
        """a string that is a defined name, alias or symbol denotes that unit - also when the same string was asked for (and read
        as prefix + unit + plural) before the definition was made: the answers equal those of a registry that got the definition
        first"""
        v = []
        logging.disable(logging.CRITICAL)
        try:
            cases = [("mau", "mau = 3 * second"), ("inchs", "inchs = 5 * second"), ("kft", "blip08 = 7 * second = kft"),
                     ("Mpc", "blop08 = 11 * second = _ = Mpc"), ("kilofoo08", "kilofoo08 = 13 * second"), ("pints", "pints = 17 * second")]
            for spelling, definition in cases:
                def answers(reg_):
                    out = []
                    for f in (lambda: reg_.get_name(spelling), lambda: str(reg_.parse_units(spelling)), lambda: reg_.get_symbol(spelling),
                              lambda: str(reg_.Quantity(1, spelling).to_root_units()), lambda: str(getattr(reg_, spelling)),
                              lambda: str(reg_.parse_expression("2 " + spelling).to_root_units())):
                        try:
                            out.append(f())
                        except Exception as exc:  # noqa: BLE001
                            out.append(type(exc).__name__)
                    return out
                late = regs.fresh("float")
                before = answers(late)                 # (readings as prefix + unit + plural, or UndefinedUnitError)
                spelling in late
                late.define(definition)
                first = regs.fresh("float")
                first.define(definition)
                got, want = answers(late), answers(first)
                if got != want:
                    v.append(f"C08 {spelling!r} asked before `{definition}` was defined (answers then: {before[:2]}): afterwards {got}, a registry "
                             f"that got the definition first answers {want}")
        finally:
            logging.disable(logging.NOTSET)
        return v

    def oracle(self, c):
        P = regs.pools()
        proj = P.proj
        v = []
        if not getattr(self, "_dal_done", False):
            self._dal_done = True
            dv = self.define_after_lookup_probe()
            if dv:
                return dv
        if c["kind"] == "history":
            u = regs.fresh("fraction") if not hasattr(self, "_oreg") or self.rng.random() < 0.1 else self._oreg
            self._oreg = u
            for s in c["seq"]:
                v += self.check_string(u, s, True, tag="after history " + repr(c["seq"]))
            self._untouched_n = getattr(self, "_untouched_n", 0) + 1
            if not hasattr(self, "_untouched") or self._untouched_n % 25 == 0:
                self._untouched = regs.fresh("fraction")       # probes register units themselves: renew the reference regularly
            for s in c.get("probes", []):
                def ans(reg_):
                    try:
                        return ("ok", reg_.get_name(s, case_sensitive=False))
                    except Exception as exc:  # noqa: BLE001
                        return ("err", type(exc).__name__)
                got, want = ans(u), ans(self._untouched)
                if got[0] != want[0] or (got[0] == "ok" and got[1] != want[1] and want[0] == "ok" and not self._untouched_dirty(s)):
                    v.append(f"C08 {s!r} with case_sensitive=False after the lookups {c['seq']}: {got}, an untouched registry gives {want}")
            return v
        if c["kind"] == "parse_units":
            # as the definitions read: every spelling names its unit; an offset unit is read as its delta_ counterpart only when
            # that is asked for (as_delta) AND it stands in a compound expression or carries an exponent other than 1
            P = regs.pools()
            u = self.reg(True)
            from .c01 import expr
            want = {}
            try:
                many = len(c["u"]) > 1
                for k, e in c["u"]:
                    pre, rec = P.proj.resolve(k)
                    name = (pre["name"] if pre else "") + rec["name"]
                    if c["as_delta"] and not pre and rec.get("conv") == "offset" and (many or Fraction(e) != 1):
                        name = "delta_" + name
                    want[name] = want.get(name, Fraction(0)) + Fraction(e)
                want = {k: x for k, x in want.items() if x != 0}
            except Exception:  # noqa: BLE001
                return v
            try:
                r = u.parse_units_as_container(expr(c["u"]), as_delta=c["as_delta"])
                got = {k: regs.to_frac(x) for k, x in r.items()}
            except Exception as exc:  # noqa: BLE001
                return [f"C08 parse_units({expr(c['u'])!r}, as_delta={c['as_delta']}): raised {type(exc).__name__}: {exc}"]
            if got != want:
                known = ""
                undefined = [k for k in got if k.startswith("delta_") and k not in u._units]
                if undefined:
                    known = f" [known finding F52] ({undefined[0]} is not a defined unit)"
                v.append(f"C08 parse_units({expr(c['u'])!r}, as_delta={c['as_delta']}) = {got}, the definitions read {want}{known}")
            return v
        if c["kind"] == "modemix":
            # the default-mode answer after an overridden lookup equals the answer of an untouched registry
            if not hasattr(self, "_mixo"):
                self._mixo = regs.fresh("fraction")
                self._mixfresh = regs.fresh("fraction")
            u, f = self._mixo, self._mixfresh

            def ans(reg_, cs=None):
                try:
                    return ("ok", str(reg_.parse_units(c["s"], case_sensitive=cs)))
                except Exception as exc:  # noqa: BLE001
                    return ("err", type(exc).__name__)
            ans(u, c["first"])
            got, want = ans(u), ans(f)
            if got != want:
                v.append(f"C08 {c['s']!r}: after parse_units(..., case_sensitive={c['first']}) the default lookup gives "
                         f"{got}, an untouched registry gives {want}")
            v += self.check_string(f, c["s"], True)
            return v
        cs = True if c["cs"] is None else c["cs"]
        if not hasattr(self, "_oracle_regs"):
            self._oracle_regs = {}
        if cs not in self._oracle_regs:
            self._oracle_regs[cs] = regs.fresh("fraction", case_sensitive=cs)
        return self.check_string(self._oracle_regs[cs], c["s"], cs)

    def _untouched_dirty(self, s):
        return False

    def check_string(self, u, s, cs, tag=""):
        P = regs.pools()
        proj = P.proj
        v = []
        try:
            got = u.get_name(s)
            err = None
        except Exception as exc:  # noqa: BLE001
            got, err = None, type(exc).__name__
        pre = f"C08 {s!r} {tag}"
        if s == "dimensionless":
            return v
        # membership agrees with resolution: `s in ureg` is never True for a string get_name refuses
        if cs and s.isidentifier():        # (`in` parses an expression: "h%s" is h * percent * s; single names only here)
            try:
                if (s in u) and got is None:
                    v.append(f"{pre}: `in` says the registry knows it, get_name raises {err}")
            except Exception:  # noqa: BLE001
                pass
        if cs:
            if s in proj.unit_by_key or self.is_delta_key(s):
                want = proj.unit_by_key[s]["name"] if s in proj.unit_by_key else None
                if want is not None and got != want:
                    v.append(f"{pre}: a defined spelling of {want} resolves to {got or err}")
                elif want is not None:
                    # the symbol reported for a defined spelling is the one of the definition (the name when none is given)
                    rec = proj.unit_by_key[s]
                    wsym = rec["symbol"] or rec["name"]
                    try:
                        gsym = u.get_symbol(s)
                    except Exception as exc:  # noqa: BLE001
                        gsym = type(exc).__name__
                    if gsym != wsym:
                        v.append(f"{pre}: get_symbol gives {gsym!r}, the definition of {want} says {wsym!r}")
                return v
            cands = proj.candidates(s)
            cands = [(p, n) for p, n in cands]
            if not cands:
                if self.has_delta_reading(s):
                    return v
                if err != "UndefinedUnitError":
                    v.append(f"{pre}: no prefix+unit+plural reading exists but get_name gives {got or err}")
                return v
            names = {p + n for p, n in cands}
            first_p, first_n = cands[0]
            un = proj.unit_by_key[first_n]
            if first_p and un["conv"] != "scale":
                if err != "OffsetUnitCalculusError" and got is not None:
                    v.append(f"{pre}: prefixed offset/log unit accepted as {got}")
                return v
            if got is None:
                v.append(f"{pre}: has the reading {cands[0]} but get_name raises {err}")
                return v
            if got not in names:
                v.append(f"{pre}: resolves to {got}, not one of its readings {sorted(names)}")
                return v
            # the prefix factor is applied exactly once
            if first_p and un["conv"] == "scale" and got == first_p + first_n:
                pv = next(p["value"] for k, p in proj.prefix_keys if p["name"] == first_p)
                f0, b0 = proj.root({first_n: Fraction(1)})
                if not isinstance(f0, regs.D.Irr) and not P.uses_fractional_power(first_n):
                    try:
                        q = u.Quantity(Fraction(1), u.Unit(u.UnitsContainer({got: 1}))).to_root_units()
                        if Fraction(q.magnitude) != pv * f0:
                            v.append(f"{pre}: 1 {got} is {q.magnitude} root units, expected prefix*unit = {pv * f0}")
                    except Exception as exc:  # noqa: BLE001
                        v.append(f"{pre}: to_root_units raised {type(exc).__name__}: {exc}")
        else:
            # case-insensitive: accepted exactly when some prefix (case-sensitive) + unit spelling (any case) [+ s] matches
            ok = self.casei_accepts(s)
            if ok and got is None and err == "UndefinedUnitError":
                v.append(f"{pre} [case-insensitive]: matches a defined spelling up to case but is undefined")
            if not ok and got is not None:
                v.append(f"{pre} [case-insensitive]: accepted as {got} although no spelling matches up to case")
        return v

    def is_delta_key(self, s):
        return s.startswith("delta_") or s.startswith("Δ")

    def has_delta_reading(self, s):
        P = regs.pools()
        for pk in [""] + P.prefix_keys:
            if s.startswith(pk):
                rest = s[len(pk):]
                for r in (rest, rest[:-1] if rest.endswith("s") else None):
                    if r and self.is_delta_key(r):
                        return True
        return False

    _lower = {}

    def casei_accepts(self, s):
        P = regs.pools()
        proj = P.proj
        if not self._lower:
            for k in proj.unit_by_key:
                self._lower.setdefault(k.lower(), []).append(k)
            for k, uu in list(proj.unit_by_key.items()):
                if uu["conv"] == "offset":
                    for pre in ("delta_", "Δ"):
                        self._lower.setdefault((pre + k).lower(), []).append(pre + k)
        for pk in [""] + P.prefix_keys:
            if s.startswith(pk):
                rest = s[len(pk):]
                for r in (rest, rest[:-1] if rest.endswith("s") and len(rest) > 2 else None):
                    if r is not None and r.lower() in self._lower:
                        return True
        return False
