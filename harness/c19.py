"""C19 — measurements carry uncertainty consistently through conversion and arithmetic."""
from __future__ import annotations
import warnings

import io
import math
import token as tokenlib
import tokenize
from fractions import Fraction

from . import regs
from .core import Property, capture, frac_s, canon, err_name

FAM = {
    "length": ["meter", "centimeter", "kilometer", "inch", "foot", "mile"],
    "time": ["second", "minute", "hour", "millisecond"],
    "mass": ["gram", "kilogram", "pound"],
    "temperature": ["kelvin", "degree_Celsius", "degree_Fahrenheit", "degree_Rankine"],
}
TOL = 1e-11


def tok_json(toks):
    out = []
    for t in toks:
        if t.type == tokenlib.OP:
            k = "op"
        elif t.type == tokenlib.NUMBER:
            k = "number"
        elif t.type == tokenlib.NAME:
            k = "name"
        elif t.type == tokenlib.ENDMARKER:
            k = "end"
        else:
            k = "other"
        out.append([k, t.string])
    return out


def plain_tokens(s):
    return [t for t in tokenize.tokenize(io.BytesIO(s.encode("utf-8")).readline) if t.type != tokenlib.ENCODING]


def close(a, b, atol=0.0):
    """relative tolerance TOL; `atol` for values that come out of a cancellation (offset conversions landing near zero)"""
    a, b = float(a), float(b)
    if math.isnan(a) or math.isnan(b):
        return math.isnan(a) and math.isnan(b)
    return a == b or abs(a - b) <= TOL * max(abs(a), abs(b), 1e-300) + atol


class Check(Property):
    ID = "C19"
    PROPS_FILE = "PintModel/Props/C19.lean"
    MODULE = "PintModel.Props.C19"
    EXTRA_LEAN_FILES = ["PintModel/Proofs/MeasureLemmas.lean"]
    RULE = ("constructor forms (numbers + unit, quantity pair in compatible / incompatible units, quantity + number, ufloat + unit, "
            "plus_minus absolute / relative / quantity error, negative errors), conversions between every pair of a unit family "
            "(offset temperature scales included), every uncertainty notation ((n +/- s), (n ± s), n(s), with e3 / e+3 / e-04 / "
            "E+2 / e+03 suffixes, signs, nan, at the end of the input or followed by units) next to ordinary expressions, "
            "measurement format specs with parse-back, first-order propagation of + - * / **; non-trivial = distinct cases "
            "whose implementation answer is a measurement or a rewritten token stream")
    PARTIAL = ["error propagation itself is the uncertainties package: checked against the first-order formulas by the oracle "
               "(tolerance 1e-11), not modelled",
               "uncertain magnitudes are floats: model (exact rationals) and implementation are compared with relative tolerance 1e-11",
               "HTML / LaTeX / siunitx measurement formats are rendered and checked for the magnitude and unit texts only"]

    # ------------------------------------------------------------------ generation
    def dy(self, rng, lo=-64, hi=64, den=(1, 2, 4, 8)):
        return Fraction(rng.randint(lo, hi), rng.choice(den))

    def cases(self):
        rng = self.rng
        out = []
        n_mk = 900 if self.tier == "quick" else 15000
        for _ in range(n_mk):
            fam = rng.choice(sorted(FAM))
            u1, u2 = rng.choice(FAM[fam]), rng.choice(FAM[fam])
            n = self.dy(rng)
            s = abs(self.dy(rng, 0, 40)) if rng.random() < 0.9 else -abs(self.dy(rng, 1, 40))
            form = rng.choice(["nums", "qpair", "qnum", "ufloat", "ufloat_nounit", "pm_abs", "pm_rel", "pm_q", "pm_q_rel", "qpair_bad"])
            mult = fam != "temperature"
            uu = [[u1, "1/1"]]
            if form == "nums":
                op = {"op": "meas", "f": "mk", "value": {"num": frac_s(n)}, "error": {"num": frac_s(s)}, "units": uu}
            elif form == "qpair":
                eu = u2 if mult else rng.choice(["kelvin", "degree_Rankine"] if u1 in ("kelvin", "degree_Rankine") else [u1])
                op = {"op": "meas", "f": "mk", "value": {"m": frac_s(n), "u": uu}, "error": {"m": frac_s(s), "u": [[eu, "1/1"]]}}
            elif form == "qpair_bad":
                other = rng.choice([f for f in FAM if f != fam])
                op = {"op": "meas", "f": "mk", "value": {"m": frac_s(n), "u": uu}, "error": {"m": frac_s(s), "u": [[FAM[other][0], "1/1"]]}}
            elif form == "qnum":
                op = {"op": "meas", "f": "mk", "value": {"m": frac_s(n), "u": uu}, "error": {"num": frac_s(s)}}
            elif form == "ufloat":
                s = abs(s)
                op = {"op": "meas", "f": "mk", "value": {"n": frac_s(n), "s": frac_s(s)}, "error": {"m": "1/1", "u": uu}}
            elif form == "ufloat_nounit":
                s = abs(s)
                op = {"op": "meas", "f": "mk", "value": {"n": frac_s(n), "s": frac_s(s)}}
            elif form == "pm_abs":
                op = {"op": "meas", "f": "plus_minus", "q": {"m": frac_s(n), "u": uu}, "error": {"num": frac_s(s)}, "relative": False}
            elif form == "pm_rel":
                s = (abs(s) if rng.random() < 0.7 else -abs(s)) / 64       # a negative relative error is rejected too
                op = {"op": "meas", "f": "plus_minus", "q": {"m": frac_s(n), "u": uu}, "error": {"num": frac_s(s)}, "relative": True}
            else:
                eu = u2 if mult else u1
                op = {"op": "meas", "f": "plus_minus", "q": {"m": frac_s(n), "u": uu}, "error": {"m": frac_s(s), "u": [[eu, "1/1"]]},
                      "relative": form == "pm_q_rel"}
            self.bump("form." + form)
            ops = [op]
            if form == "nums" and s >= 0 and n != 0:
                ops.append({"op": "meas", "f": "rel", "n": frac_s(n), "s": frac_s(s)})
            out.append({"kind": "mk", "form": form, "ops": ops})
        for _ in range(500 if self.tier == "quick" else 8000):
            fam = rng.choice(sorted(FAM))
            u1, u2 = rng.choice(FAM[fam]), rng.choice(FAM[fam])
            n, s = self.dy(rng), abs(self.dy(rng, 0, 40))
            self.bump("convert." + ("offset" if fam == "temperature" else "multiplicative"))
            out.append({"kind": "convert", "n": frac_s(n), "s": frac_s(s), "src": u1, "dst": u2,
                        "ops": [{"op": "meas", "f": "convert", "n": frac_s(n), "s": frac_s(s), "u": [[u1, "1/1"]], "dst": [[u2, "1/1"]]}]})
        for _ in range(1500 if self.tier == "quick" else 25000):
            c = self.gen_notation(rng)
            try:
                toks = plain_tokens(c["s"].replace("±", "+/-"))
            except Exception:  # noqa: BLE001
                continue
            c["ops"] = [{"op": "meas", "f": "tokens", "tokens": tok_json(toks)}]
            self.bump("notation." + c["form"])
            out.append(c)
        for _ in range(200 if self.tier == "quick" else 3000):
            n, s = self.dy(rng), abs(self.dy(rng, 1, 40))
            fam = rng.choice(["length", "time", "mass"])
            a = {"n": frac_s(n), "s": frac_s(s), "u": rng.choice(FAM[fam])}
            b = {"n": frac_s(self.dy(rng, 1, 64)), "s": frac_s(abs(self.dy(rng, 1, 40))), "u": rng.choice(FAM[rng.choice([fam, fam, "time"])])}
            self.bump("arithmetic")
            out.append({"kind": "arith", "a": a, "b": b, "f": rng.choice(["add", "sub", "mul", "div", "pow2", "scale"]), "ops": []})
        for _ in range(150 if self.tier == "quick" else 2000):
            dec = rng.choice([0, 1, 2, 3])
            sdig = rng.randint(1, 99)
            n = Fraction(rng.randint(-9999, 9999), 10 ** dec)
            s = Fraction(sdig, 10 ** dec)
            self.bump("format")
            out.append({"kind": "format", "n": frac_s(n), "s": frac_s(s), "dec": dec, "u": rng.choice(FAM[rng.choice(["length", "time", "mass"])]),
                        "ops": []})
        return out

    def gen_notation(self, rng):
        dec = rng.choice([0, 1, 1, 2, 3])
        def num(maxint=999):
            i = rng.randint(0, maxint)
            if dec == 0 and rng.random() < 0.5:
                return str(i)
            return f"{i}.{rng.randint(0, 10 ** max(dec, 1) - 1):0{max(dec, 1)}d}"
        n = num()
        if rng.random() < 0.05:
            n = rng.choice(["0.0", "0", "nan"])
        sgn = "-" if rng.random() < 0.25 else ""
        expo = rng.choice(["", "", "e3", "e+3", "e-04", "E+2", "e+03", "e-2", "E-07", "e12", "e+0", "e 3", "E3"])
        tail = rng.choice(["", " m", " meter", " m/s", "*m", " kg", " * 2", " + 1", ")", " (", " e", " eV"])
        form = rng.choice(["paren_pm", "paren_pm", "unicode", "bare_pm", "nparen", "nparen", "plain", "tight", "nparen_pre"])
        sp = rng.choice([" ", " ", ""])
        if form == "paren_pm":
            s = f"({sgn}{n}{sp}+/-{sp}{num(99)}){expo}{tail}"
        elif form == "unicode":
            s = f"({sgn}{n}{sp}±{sp}{num(99)}){expo}{tail}"
        elif form == "tight":
            s = f"({sgn}{n}+/-{num(9)}){expo}{tail}"
        elif form == "bare_pm":
            s = f"{sgn}{n} +/- {num(99)}{tail}"
        elif form == "nparen":
            sd = str(rng.randint(1, 99)) if rng.random() < 0.8 else num(9)
            s = f"{sgn}{n}({sd}){expo}{tail}"
        elif form == "nparen_pre":
            # the exponent written with the value: 1.50e3(2) is (1.50 +/- 0.02) e3
            s = f"{sgn}{n}{rng.choice(['e3', 'E3', 'e+2', 'e-2', 'E-04', 'e0'])}({rng.randint(1, 99)}){rng.choice(['', ' m', ' meter'])}"
        else:
            s = rng.choice(["2 * (3 + 4) m", "meter/(second + 1)", "3 m(2)", "f(2)", "(1 + / - 2)", "1 +/ 2", "(a +/- 2)", "(1 +/- b) m",
                            "2 (3) e3", "+ / -", "(1.0 +/- 0.1", "1.0(2", "4 e3", "(-1 +/- 1)", "(- 1 +/- 1)e1"]) + rng.choice(["", " m"])
        return {"kind": "notation", "form": form, "s": s}

    # ------------------------------------------------------------------ implementation
    def arg(self, u, j):
        from uncertainties import ufloat
        if j is None:
            return None
        if "num" in j:
            return float(Fraction(j["num"]))
        if "n" in j:
            return ufloat(float(Fraction(j["n"])), float(Fraction(j["s"])))
        return u.Quantity(float(Fraction(j["m"])), u.Unit(u.UnitsContainer({k: int(Fraction(e)) for k, e in j["u"]})))

    @staticmethod
    def meas_j(m):
        """through the public accessors .value / .error (and .rel, kept aside)"""
        return {"n": m.value.magnitude, "s": m.error.magnitude,
                "u": sorted([k, frac_s(regs.to_frac(e))] for k, e in m._units.items()),
                "rel": (m.rel if m.magnitude.nominal_value != 0 else None),
                "vu": str(m.value.units) == str(m.units) and str(m.error.units) == str(m.units)}

    def impl(self, c):
        u = regs.ureg("float")
        k = c["kind"]
        if k == "mk":
            o = c["ops"][0]
            if o["f"] == "mk":
                extra = []
                if len(c["ops"]) > 1:
                    extra = [capture(lambda: u.Measurement(float(Fraction(o["value"]["num"])), float(Fraction(o["error"]["num"])), o["units"][0][0]).rel)]

                def run():
                    args = [self.arg(u, o["value"])]
                    if "error" in o:
                        e = self.arg(u, o["error"])
                        if "n" in o["value"] and hasattr(e, "units"):
                            e = e.units            # (ufloat, units)
                        args.append(e)
                    if "units" in o:
                        args.append(u.Unit(u.UnitsContainer({kk: int(Fraction(e)) for kk, e in o["units"]})))
                    return self.meas_j(u.Measurement(*args))
                return [capture(run)] + extra
            return [capture(lambda: self.meas_j(self.arg(u, o["q"]).plus_minus(self.arg(u, o["error"]), relative=o["relative"])))]
        if k == "convert":
            def run():
                m = u.Measurement(float(Fraction(c["n"])), float(Fraction(c["s"])), c["src"])
                return self.meas_j(m.to(c["dst"]))
            return [capture(run)]
        if k == "notation":
            from pint.pint_eval import uncertainty_tokenizer
            return [capture(lambda: tok_json(list(uncertainty_tokenizer(c["s"]))))]
        return []

    def same(self, c, io, mo):
        if not mo:
            return True
        i, m = io[0], mo[0]
        if "err" in i and "err" in m:
            a = i["err"].split(":")[-1]
            return a == m["err"] or {a, m["err"]} <= {"TypeError", "AttributeError"} or {a, m["err"]} <= {"ValueError", "IndexError", "AssertionError"}
        if "ok" in i and "ok" in m and c["kind"] in ("mk", "convert"):
            a, b = i["ok"], m["ok"]
            atol = 1e-9 if c["kind"] == "convert" else 0.0
            ok = canon(a["u"]) == canon(b["u"]) and close(a["n"], Fraction(b["n"]), atol) and close(a["s"], Fraction(b["s"]))
            if ok and len(io) > 1:
                ok = "ok" in io[1] and "ok" in mo[1] and close(io[1]["ok"], Fraction(mo[1]["ok"]))
            return ok
        return canon(i) == canon(m)

    def nontrivial(self, c, io):
        if io and "ok" in io[0]:
            if c["kind"] == "notation":
                return c["s"] if any(x == ["op", "+/-"] for x in io[0]["ok"]) else None
            return canon({k: v for k, v in c.items() if k != "ops"} if c["kind"] != "mk" else c["ops"][0])
        if c["kind"] in ("arith", "format"):
            return canon({k: v for k, v in c.items() if k != "ops"})
        return None

    # ------------------------------------------------------------------ oracle: the property on the real code
    def factor(self, name):
        P = regs.pools()
        f, _ = P.proj.root({name: Fraction(1)})
        pf, uu = P.proj.resolve(name)
        off = uu["modifiers"]["offset"] if uu["conv"] == "offset" else Fraction(0)
        return f, off

    def oracle(self, c):
        u = regs.ureg("float")
        k = c["kind"]
        v = []
        if k == "mk":
            o = c["ops"][0]
            r = self.impl(c)[0]
            tag = f"C19 {c['form']} {o}"[:400]
            val = o.get("value") or o.get("q")
            n = Fraction(val.get("num") or val.get("m") or val.get("n"))
            if c["form"] == "ufloat_nounit":
                if "err" not in r:
                    v.append(f"{tag}: a bare ufloat without units gave {r}")
                return v
            if c["form"] in ("ufloat", "ufloat_nounit"):
                s = Fraction(o["value"]["s"])
                units = o["error"]["u"] if "error" in o else []
            else:
                e = o["error"]
                units = o.get("units") or val.get("u") or []
                if "num" in e:
                    s = Fraction(e["num"])
                    if o.get("relative"):
                        s = s * abs(n)
                else:
                    # an error given as a quantity: expressed in the value's units (a difference: slope only)
                    (fu, _), (fe, _) = self.factor(units[0][0]), self.factor(e["u"][0][0])
                    P = regs.pools()
                    if P.proj.dimensionality({units[0][0]: Fraction(1)}) != P.proj.dimensionality({e["u"][0][0]: Fraction(1)}):
                        if "err" not in r or "DimensionalityError" not in r["err"]:
                            v.append(f"{tag}: error in incompatible units gave {r}")
                        return v
                    if o.get("relative"):
                        if "err" not in r or "ValueError" not in r["err"]:
                            v.append(f"{tag}: a quantity as relative error gave {r}")
                        return v
                    if units[0][0] != e["u"][0][0] and (self.factor(units[0][0])[1] != 0 or self.factor(e["u"][0][0])[1] != 0):
                        return v        # offset scales: the error's own offset calculus is C06's subject
                    s = Fraction(e["m"]) * fe / fu
            if s < 0:
                if "err" not in r or "ValueError" not in r["err"]:
                    v.append(f"{tag}: a negative error gave {r}")
                return v
            if "ok" not in r:
                v.append(f"{tag}: raised {r}")
                return v
            got = r["ok"]
            if not got.get("vu", True):
                v.append(f"{tag}: .value / .error are not in the measurement's units")
            if n != 0 and got.get("rel") is not None and not close(got["rel"], abs(s / n)):
                v.append(f"{tag}: .rel = {got['rel']}, built from {n} +/- {s} (|error / value| = {float(abs(s / n))})")
            if not (close(got["n"], n) and close(got["s"], s) and [x[0] for x in got["u"]] == [x[0] for x in units]):
                v.append(f"{tag}: reports value {got['n']} error {got['s']} units {got['u']}, built from {n} +/- {s} {units}")
            return v
        if k == "convert":
            r = self.impl(c)[0]
            n, s = Fraction(c["n"]), Fraction(c["s"])
            (fa, oa), (fb, ob) = self.factor(c["src"]), self.factor(c["dst"])
            want_n = (n * fa + oa - ob) / fb
            want_s = s * abs(fa / fb)
            tag = f"C19 ({n} +/- {s}) {c['src']} -> {c['dst']}"
            if "ok" not in r:
                return [f"{tag}: raised {r}"]
            if not (close(r["ok"]["n"], want_n, 1e-9) and close(r["ok"]["s"], want_s)):
                v.append(f"{tag}: {r['ok']['n']} +/- {r['ok']['s']}, expected {float(want_n)} +/- {float(want_s)} (error scaled by the slope)")
            plain = u.Quantity(float(n), c["src"]).to(c["dst"]).magnitude
            if not close(r["ok"]["n"], plain, 1e-9):
                v.append(f"{tag}: nominal value {r['ok']['n']} differs from the plain quantity's {plain}")
            if oa == 0 and ob == 0 and n != 0 and want_n != 0:
                if not close(r["ok"]["rel"], abs(s / n)):
                    v.append(f"{tag}: the relative error changed under a multiplicative conversion")
            # the in-place forms, on an object whose accessors were read before: value, error and rel afterwards are those of the
            # converted measurement (and of the functional form)
            try:
                m_ = u.Measurement(float(n), float(s), c["src"])
                read_before = (m_.value.magnitude, m_.error.magnitude, (m_.rel if n != 0 else None))
                m_.ito(c["dst"])
                got_n, got_s = m_.value.magnitude, m_.error.magnitude
                if not (close(got_n, want_n, 1e-9) and close(got_s, want_s)):
                    v.append(f"{tag}: after reading value / error / rel ({read_before}) and ito({c['dst']!r}) the object reports "
                             f"{got_n} +/- {got_s}, expected {float(want_n)} +/- {float(want_s)}")
                elif want_n != 0 and not close(m_.rel, abs(want_s / want_n)):
                    v.append(f"{tag}: after ito({c['dst']!r}) rel = {m_.rel}, expected {float(abs(want_s / want_n))}")
                m2 = u.Measurement(float(n), float(s), c["src"])
                _ = (m2.error, m2.rel if n != 0 else None)
                m2.ito_base_units()
                back = m2.to(c["src"])
                if not (close(back.value.magnitude, n, 1e-9) and close(back.error.magnitude, s)):
                    v.append(f"{tag}: ito_base_units() after reading error / rel, then back to {c['src']}: {back.value.magnitude} +/- "
                             f"{back.error.magnitude}, expected {float(n)} +/- {float(s)}")
            except Exception as exc:  # noqa: BLE001
                v.append(f"{tag}: in-place conversion raised {type(exc).__name__}: {exc}")
            return v
        if k == "notation":
            return self.oracle_notation(u, c)
        if k == "arith":
            return self.oracle_arith(u, c)
        if k == "format":
            return self.oracle_format(u, c)
        return v

    def oracle_notation(self, u, c):
        """a well-formed notation evaluates to the measurement it denotes"""
        import re
        v = []
        s = c["s"]
        m = re.fullmatch(r"\((-?)(\d+(?:\.\d+)?)\s*(?:\+/-|±)\s*(\d+(?:\.\d+)?)\)((?:[eE]\d+|[eE][+-]\d+)?)( m| meter)?", s)      # the exponent forms
        m2 = re.fullmatch(r"(-?)(\d+(?:\.\d+)?)\((\d+(?:\.\d+)?)\)((?:[eE]\d+|[eE][+-]\d+)?)( m| meter)?", s)
        m3 = re.fullmatch(r"(-?)(\d+(?:\.\d+)?)([eE][+-]?\d+)\((\d+)\)( m| meter)?", s)
        if not (m or m2 or m3):
            return v
        if m3:
            sg, n, ex, sd, unit = m3.groups()
            nom = Fraction(n)
            std = Fraction(int(sd), 10 ** len(n.partition(".")[2]))
        elif m:
            sg, n, sd, ex, unit = m.groups()
            nom, std = Fraction(n), Fraction(sd)
        else:
            sg, n, sd, ex, unit = m2.groups()
            nom = Fraction(n)
            if "." in sd:
                std = Fraction(sd)
            else:
                dec = len(n.partition(".")[2])
                std = Fraction(int(sd), 10 ** dec)
        if sg:
            nom = -nom
        if ex:
            sc = Fraction(10) ** int(ex[1:])
            nom, std = nom * sc, std * sc
        try:
            r = u.parse_expression(s)
        except Exception as exc:  # noqa: BLE001
            return [f"C19 notation {s!r}: raised {type(exc).__name__}: {exc}"]
        mag = getattr(r, "magnitude", r)
        if not hasattr(mag, "nominal_value"):
            return [f"C19 notation {s!r}: evaluates to {r!r}, not an uncertain value"]
        if sg and m2:
            # "-n(s)" is the negation of n(s): same thing
            pass
        if not (close(mag.nominal_value, nom) and close(mag.std_dev, std)):
            v.append(f"C19 notation {s!r}: evaluates to {mag.nominal_value} +/- {mag.std_dev}, it denotes {float(nom)} +/- {float(std)}")
        if unit and (not hasattr(r, "units") or str(r.units) != "meter"):
            v.append(f"C19 notation {s!r}: units {getattr(r, 'units', None)}")
        if not unit and not ex and not sg:
            # the notation inside a larger expression denotes the same measurement: followed by a unit whose name starts with
            # "e" and a sum (no exponent there), raised to a power, multiplied
            fn, fs = float(nom), float(std)
            for expr, wn, ws, wu in ((s + "eV + 3 eV", fn + 3, fs, "electron_volt"), (s + " erg - 2 erg", fn - 2, fs, "erg"),
                                     (s + "**2", fn ** 2, 2 * abs(fn) * fs, None), (s + " ** 2", fn ** 2, 2 * abs(fn) * fs, None),
                                     ("2 * " + s, 2 * fn, 2 * fs, None), (s + " m ** 2", fn, fs, "meter ** 2")):
                try:
                    r2 = u.parse_expression(expr)
                except Exception as exc:  # noqa: BLE001
                    v.append(f"C19 notation in an expression {expr!r}: raised {type(exc).__name__}: {exc}")
                    continue
                mg = getattr(r2, "magnitude", r2)
                if not hasattr(mg, "nominal_value") or not (close(mg.nominal_value, wn) and close(mg.std_dev, ws)):
                    v.append(f"C19 notation in an expression {expr!r}: evaluates to {r2!r}, it denotes {wn} +/- {ws} {wu or ''}")
                elif wu and str(getattr(r2, "units", "")) != wu:
                    v.append(f"C19 notation in an expression {expr!r}: units {getattr(r2, 'units', None)}, expected {wu}")
        return v

    def bare_operand_probe(self, u):
        """the same unit rules as plain quantities: a bare operand of + - and comparisons is accepted for a dimensional quantity
        only when it IS zero (0, 0.0, an uncertain zero with no uncertainty) - an uncertain number with nominal value 0 and a
        non-zero standard deviation is not zero"""
        import operator
        from uncertainties import ufloat
        v = []
        lefts = [("Measurement(5.0, 0.2, m)", lambda: u.Measurement(5.0, 0.2, "meter")), ("Quantity(ufloat(5.0, 0.2), m)", lambda: u.Quantity(ufloat(5.0, 0.2), "meter")),
                 ("Quantity(5.0, m)", lambda: u.Quantity(5.0, "meter"))]
        bares = [("0", 0, True), ("0.0", 0.0, True), ("ufloat(0, 0)", ufloat(0.0, 0.0), True), ("ufloat(0.0, 0.1)", ufloat(0.0, 0.1), False),
                 ("ufloat(0.0, 3.0)", ufloat(0.0, 3.0), False), ("0.1", 0.1, False), ("ufloat(0.1, 0.1)", ufloat(0.1, 0.1), False)]
        with warnings.catch_warnings():
            warnings.simplefilter("ignore")
            for ln, mk in lefts:
                for bn, bare, is_zero in bares:
                    for on, fn in (("+", lambda q: q + bare), ("-", lambda q: q - bare), ("reflected +", lambda q: bare + q),
                                   ("reflected -", lambda q: bare - q), (">", lambda q: q > bare)):
                        try:
                            fn(mk())
                            accepted = True
                        except Exception:  # noqa: BLE001
                            accepted = False
                        if accepted != is_zero:
                            v.append(f"C19 {ln} {on} {bn}: {'accepted' if accepted else 'refused'}; a bare operand is combined with a dimensional "
                                     f"quantity exactly when it is zero")
        return v[:8]

    def oracle_arith(self, u, c):
        v = []
        if not getattr(self, "_bare_done", False):
            self._bare_done = True
            v += self.bare_operand_probe(u)
            if v:
                return v
        a = u.Measurement(float(Fraction(c["a"]["n"])), float(Fraction(c["a"]["s"])), c["a"]["u"])
        b = u.Measurement(float(Fraction(c["b"]["n"])), float(Fraction(c["b"]["s"])), c["b"]["u"])
        pa, pb = u.Quantity(a.magnitude.nominal_value, a.units), u.Quantity(b.magnitude.nominal_value, b.units)
        f = c["f"]
        tag = f"C19 {f} {a!r} {b!r}"

        def run(fn):
            try:
                return ("ok", fn())
            except Exception as exc:  # noqa: BLE001
                return ("err", type(exc).__name__)
        ops = {"add": lambda x, y: x + y, "sub": lambda x, y: x - y, "mul": lambda x, y: x * y, "div": lambda x, y: x / y,
               "pow2": lambda x, y: x ** 2, "scale": lambda x, y: x * 3}
        r, p = run(lambda: ops[f](a, b)), run(lambda: ops[f](pa, pb))
        if r[0] != p[0] or (r[0] == "err" and r[1] != p[1]):
            return [f"{tag}: uncertain operands give {r}, plain quantities {p} (same unit rules expected)"]
        if r[0] == "err":
            return v
        rq, pq = r[1], p[1]
        if rq.units != pq.units:
            v.append(f"{tag}: units {rq.units} vs plain {pq.units}")
        if not close(rq.magnitude.nominal_value, pq.magnitude):
            v.append(f"{tag}: nominal {rq.magnitude.nominal_value} vs plain {pq.magnitude}")
        # first-order propagation, independent operands, in the units of the result
        na, sa = a.magnitude.nominal_value, a.magnitude.std_dev
        if f in ("add", "sub"):
            k_ = u.Quantity(1.0, b.units).to(a.units).magnitude
            nb, sb = b.magnitude.nominal_value * k_, b.magnitude.std_dev * k_
            want = math.hypot(sa, sb)
        else:
            nb, sb = b.magnitude.nominal_value, b.magnitude.std_dev
            if f == "mul":
                want = math.hypot(sa * nb, sb * na)
            elif f == "div":
                want = math.hypot(sa / nb, sb * na / nb ** 2)
            elif f == "pow2":
                want = abs(2 * na * sa)
            else:
                want = 3 * sa
        if not close(rq.magnitude.std_dev, want) and not (want == 0 and rq.magnitude.std_dev == 0):
            v.append(f"{tag}: propagated error {rq.magnitude.std_dev}, first-order formula gives {want}")
        v += self.oracle_correlated(u, a, b, tag)
        return v

    def oracle_correlated(self, u, a, b, tag):
        """a derived measurement stays the same random variable: expressions that use an operand twice have the
        first-order error of the simplified expression (2x - x = x, (x*x)/x = x, (x+y) - y = x, x.to(..) - x = 0)"""
        v = []
        import warnings
        na, sa = a.magnitude.nominal_value, a.magnitude.std_dev
        same_dim = a.dimensionality == b.dimensionality
        exprs = [("2*x - x", lambda: 2 * a - a, na, sa), ("(x*x)/x", lambda: (a * a) / a, na, sa),
                 ("(x*y)/y", lambda: (a * b) / b, na, sa), ("x.to(root) - x", lambda: a.to_root_units() - a, 0.0, 0.0)]
        if same_dim:
            exprs.append(("(x+y) - y", lambda: (a + b) - b, na, sa))
        for name, fn, wn, ws in exprs:
            if na == 0 or b.magnitude.nominal_value == 0:
                continue
            try:
                with warnings.catch_warnings():
                    warnings.simplefilter("ignore")
                    r = fn().to(a.units)
            except Exception as exc:  # noqa: BLE001
                v.append(f"{tag}: {name} raised {type(exc).__name__}: {exc}")
                continue
            gn, gs = r.magnitude.nominal_value, r.magnitude.std_dev
            scale = max(abs(na), sa, 1e-300)
            if abs(gn - wn) > 1e-9 * scale or abs(gs - ws) > 1e-9 * max(sa, 1e-300) + 1e-12 * scale:
                v.append(f"{tag}: {name} gives {gn} +/- {gs} {a.units}; x is {na} +/- {sa}, first-order propagation of the "
                         f"simplified expression gives {wn} +/- {ws}")
        return v

    def oracle_format(self, u, c):
        v = []
        n, s = Fraction(c["n"]), Fraction(c["s"])
        m = u.Measurement(float(n), float(s), c["u"])
        before = (m.magnitude.nominal_value, m.magnitude.std_dev, dict(m._units))
        for spec in ["", "P", "C", "S", "~", "~P", "~C", "H", "L", "Lx", "D", ".3uS", ".2uP"]:
            tag = f"C19 format({m!r}, {spec!r})"
            try:
                txt = format(m, spec)
            except Exception as exc:  # noqa: BLE001
                v.append(f"{tag}: raised {type(exc).__name__}: {exc}")
                continue
            uname = format(m.units, spec.replace("S", "").replace(".3u", "").replace(".2u", "") or "D")
            if spec not in ("Lx",) and uname and uname not in txt:
                v.append(f"{tag} = {txt!r}: the unit rendering {uname!r} is missing")
            if spec in ("", "P", "C", "S", "~", "~P", "~C", "D") and "×" not in txt:
                try:
                    back = u.parse_expression(txt)
                    mag = getattr(back, "magnitude", back)
                    # the rendering keeps one or two significant digits of the error (PDG rule) and rounds the value at that
                    # digit: the parsed measurement must agree within that rounding
                    ok = hasattr(mag, "nominal_value") and abs(mag.nominal_value - float(n)) <= 0.51 * float(s) + 1e-12 and \
                        abs(mag.std_dev - float(s)) <= 0.3 * float(s) + 1e-12 and getattr(back, "units", None) == m.units
                    if not ok:
                        v.append(f"{tag} = {txt!r} parses back to {back!r}")
                except Exception as exc:  # noqa: BLE001
                    v.append(f"{tag} = {txt!r} does not parse back: {type(exc).__name__}: {exc}")
        if (m.magnitude.nominal_value, m.magnitude.std_dev, dict(m._units)) != before:
            v.append(f"C19 formatting altered {m!r}")
        return v
