"""C06 — offset and logarithmic units convert by their defining maps and refuse ambiguity."""
from __future__ import annotations

import math
import operator
from fractions import Fraction

from . import regs
from .core import Property, capture, frac_s, canon, err_name

OFFSET = ["degree_Celsius", "degree_Fahrenheit", "degree_Reaumur"]
ABSOLUTE = ["kelvin", "degree_Rankine"]
DELTA = ["delta_" + o for o in OFFSET]
GEN = [("degX", Fraction(7, 3), Fraction(23, 2)), ("degY", Fraction(1, 4), Fraction(-100)), ("degZ", Fraction(9, 5), Fraction(1000, 3))]
LOGS = ["decibel", "decibelwatt", "decibelmilliwatt", "decibelmicrowatt", "neper", "octave", "decade"]


def kind_of(name):
    if name.startswith("delta_"):
        return "D"
    if name in OFFSET or name in [g[0] for g in GEN]:
        return "O"
    return "A"


class Check(Property):
    ID = "C06"
    PROPS_FILE = "PintModel/Props/C06.lean"
    MODULE = "PintModel.Props.C06Auto"
    EXTRA_PROPS_FILES = ["PintModel/Props/C06Conv.lean", "PintModel/Props/C06Auto.lean"]
    EXTRA_LEAN_FILES = []
    RULE = ("temperature-like units of the default registry (offset, delta, absolute) and generated offset units with "
            "random rational scale/offset: every ordered pair for conversion (exhaustive), compound containers with "
            "offset units, and the operator table {+ - * / ** unary == <} x operand kinds x both orders x "
            "autoconvert on/off; logarithmic units against an independent math formula (4 ulp); non-trivial = "
            "distinct cases involving at least one non-multiplicative unit")
    PARTIAL = ["logarithmic units: floating point; the inverse law is a theorem over ℝ is not stated, conversions are "
               "compared numerically only", "ndarray operands are exercised by C03's in-place oracle only"]

    def so(self, name):
        """(scale, offset) to kelvin"""
        for g, s, o in GEN:
            if name == g:
                return s, o
            if name == "delta_" + g:
                return s, Fraction(0)
        P = regs.pools()
        base = name.replace("delta_", "")
        u = P.proj.unit_by_key[base]
        f, _ = P.proj.root({base: Fraction(1)})
        off = u["modifiers"].get("offset", Fraction(0)) if not name.startswith("delta_") else Fraction(0)
        return f, off

    def gen_defs(self):
        return [{"name": g, "symbol": None, "aliases": [], "conv": {"kind": "offset", "scale": frac_s(s), "offset": frac_s(o)},
                 "ref": [["kelvin", "1/1"]], "is_base": False} for g, s, o in GEN]

    def cases(self):
        rng = self.rng
        out = []
        temps = OFFSET + ABSOLUTE + DELTA + [g[0] for g in GEN] + ["delta_" + g[0] for g in GEN]
        mags = [Fraction(0), Fraction(1), Fraction(-40), Fraction(100), Fraction(27315, 100), Fraction(-7, 3), Fraction(451)]
        pre = [{"op": "reset"}] + [{"op": "define", "def": d} for d in self.gen_defs()]

        def conv(src, dst, x, auto=False):
            self.bump("convert")
            return {"kind": "convert", "src": src, "dst": dst, "x": frac_s(x), "auto": auto,
                    "ops": pre + [{"op": "convert", "x": frac_s(x), "src": src, "dst": dst, "auto": auto}]}
        for a in temps:
            for b in temps:
                for x in rng.sample(mags, 2 if self.tier == "quick" else len(mags)):
                    out.append(conv([[a, "1/1"]], [[b, "1/1"]], x))
        # compound containers: offset unit in multiplicative context, higher order, two offset units
        others = ["meter", "second", "gram"]
        for _ in range(200 if self.tier == "quick" else 2000):
            a = rng.choice(temps)
            b = rng.choice(temps)
            ea = rng.choice(["1/1", "1/1", "2/1", "-1/1"])
            o = rng.choice(others)
            src = [[a, ea], [o, "1/1"]] if rng.random() < 0.7 else [[a, ea]]
            dst = [[b, ea], [o, "1/1"]] if rng.random() < 0.8 else [[b, ea], [rng.choice(temps), "1/1"]]
            if len({k for k, _ in dst}) < len(dst):
                continue
            out.append(conv(src, dst, rng.choice(mags), auto=rng.random() < 0.5))
        # the same non-multiplicative unit power on both sides (refused in every mode)
        for _ in range(150 if self.tier == "quick" else 1500):
            a, b = rng.choice(temps), rng.choice(temps)
            e = rng.choice(["2/1", "-1/1", "1/2", "3/1", "-2/1"])
            out.append(conv([[a, e]], [[b, e]], rng.choice(mags), auto=rng.random() < 0.6))
        # operator table
        fs = ["add", "sub", "mul", "div", "eq", "lt", "floordiv", "mod"]
        for _ in range(1200 if self.tier == "quick" else 12000):
            a, b = rng.choice(temps), rng.choice(temps + ["meter"])
            auto = rng.random() < 0.5
            qa = {"m": frac_s(rng.choice(mags)), "u": [[a, "1/1"]]}
            f = rng.choice(fs + ["pow", "rtruediv", "neg", "mulnum", "divnum", "rsub"])
            op = {"op": "q", "f": f, "a": qa, "auto": auto}
            c = {"kind": "arith", "f": f, "a": qa, "auto": auto}
            if f == "pow":
                op["x"] = c["x"] = rng.choice(["0/1", "1/1", "2/1", "-1/1"])
            elif f in ("rtruediv", "rsub"):
                op["x"] = c["x"] = rng.choice(["1/1", "5/1", "0/1"])
            elif f in ("mulnum", "divnum"):
                x = rng.choice(["2/1", "1/1", "-3/1"])
                op["f"] = "mul" if f == "mulnum" else "div"
                op["b"] = c["b"] = {"num": x}
            elif f != "neg":
                qb = {"m": frac_s(rng.choice(mags)), "u": [[b, "1/1"]]}
                if rng.random() < 0.15:
                    qb["u"].append(["second", "-1/1"])
                op["b"] = c["b"] = qb
            c["ops"] = pre + [op]
            self.bump("arith." + f)
            out.append(c)
        # logarithmic units: oracle only
        for _ in range(150 if self.tier == "quick" else 1500):
            a = rng.choice(LOGS)
            x = rng.choice([0.0, 1.0, 3.0, -10.0, 20.0, 0.5])
            self.bump("log")
            out.append({"kind": "log", "unit": a, "x": x, "ops": []})
        return out

    # ------------------------------------------------------------------ implementation
    _regs = {}

    def reg(self, auto):
        if auto not in self._regs:
            u = regs.fresh("fraction", autoconvert_offset_to_baseunit=auto)
            for g, s, o in GEN:
                u.define(f"{g} = {s.numerator}/{s.denominator} * kelvin; offset: {o.numerator}/{o.denominator}")
            self._regs[auto] = u
        return self._regs[auto]

    def mkq(self, u, j):
        return u.Quantity(Fraction(j["m"]), u.Unit(regs.pint_uc(u, j["u"], canonical=True)))

    def apply(self, u, c):
        from .c03 import PYOP
        a = self.mkq(u, c["a"])
        f = c["f"]
        if f == "neg":
            return -a
        if f == "pow":
            return a ** int(Fraction(c["x"]))
        if f == "rtruediv":
            return int(Fraction(c["x"])) / a
        if f == "rsub":
            return int(Fraction(c["x"])) - a
        b = c["b"]
        if "num" in b:
            bb = int(Fraction(b["num"]))
            return a * bb if f == "mulnum" else a / bb
        return PYOP[f](a, self.mkq(u, b))

    def impl(self, c):
        from .c03 import res_j
        n = 1 + len(GEN)
        pad = [{"ok": None}] * n
        if c["kind"] == "log":
            return []
        u = self.reg(c["auto"])
        if c["kind"] == "convert":
            def run():
                r = u.convert(Fraction(c["x"]), regs.pint_uc(u, c["src"], canonical=True), regs.pint_uc(u, c["dst"], canonical=True))
                return frac_s(Fraction(r)) if not isinstance(r, float) else {"float": r}
            return pad + [capture(run)]
        return pad + [capture(lambda: res_j(self.apply(u, c)))]

    def expect(self, c, mo):
        n = 1 + len(GEN)
        return [{"ok": None}] * n + mo[n:]

    def same(self, c, io, mo):
        if c["kind"] == "log":
            return True
        i, m = io[-1], mo[-1]
        if m.get("err") == "Inexact":
            return True
        if "ok" in i and "ok" in m and isinstance(i["ok"], dict) and "u" in i["ok"]:
            return i["ok"]["m"] == m["ok"]["m"] and sorted(i["ok"]["u"]) == sorted(m["ok"]["u"])
        return canon(i) == canon(m)

    def nontrivial(self, c, io):
        return canon({k: v for k, v in c.items() if k != "ops"})

    # ------------------------------------------------------------------ oracle
    def oracle(self, c):
        if c["kind"] == "log":
            return self.oracle_log(c)
        if c["kind"] == "convert":
            return self.oracle_convert(c)
        return self.oracle_arith(c)

    def oracle_convert(self, c):
        v = []
        if len(c["src"]) != 1 or len(c["dst"]) != 1 or c["src"][0][1] != "1/1":
            return self.oracle_compound(c)
        a, b = c["src"][0][0], c["dst"][0][0]
        u = self.reg(c["auto"])
        x = Fraction(c["x"])
        sa, oa = self.so(a)
        sb, ob = self.so(b)
        ka, kb = kind_of(a), kind_of(b)
        tag = f"C06 convert {x} {a} -> {b}"
        try:
            r = u.Quantity(x, u.Unit(u.UnitsContainer({a: 1}))).to(u.Unit(u.UnitsContainer({b: 1}))).magnitude
            err = None
        except Exception as exc:  # noqa: BLE001
            r, err = None, type(exc).__name__
        if a == b:
            if r != x:
                v.append(f"{tag}: identity conversion gives {r or err}")
            return v
        if (ka == "O" and kb == "D") or (ka == "D" and kb == "O"):
            if err != "DimensionalityError":
                v.append(f"{tag}: offset <-> delta conversion must raise DimensionalityError, got {r if err is None else err}")
            return v
        if err is not None:
            v.append(f"{tag}: raised {err}")
            return v
        if ka == "D" or kb == "D":
            want = x * sa / sb        # delta units convert by scale only
        else:
            want = (x * sa + oa - ob) / sb
        if Fraction(r) != want:
            v.append(f"{tag}: got {r}, the defining affine map gives {want}")
        # mutually inverse
        try:
            back = u.Quantity(r, u.Unit(u.UnitsContainer({b: 1}))).to(u.Unit(u.UnitsContainer({a: 1}))).magnitude
            if Fraction(back) != x:
                v.append(f"{tag}: round trip gives {back}")
        except Exception as exc:  # noqa: BLE001
            v.append(f"{tag}: inverse conversion raised {type(exc).__name__}")
        return v

    def oracle_compound(self, c):
        """refusals: >1 non-multiplicative unit, exponent != 1, multiplicative context without autoconvert"""
        v = []
        u = self.reg(c["auto"])
        tag = f"C06 convert {c['src']} -> {c['dst']} auto={c['auto']}"

        def bad(items):
            nm = [(k, Fraction(e)) for k, e in items if kind_of(k) == "O"]
            if len(nm) > 1:
                return True
            if len(nm) == 1:
                if nm[0][1] != 1:
                    return True
                if len(items) > 1 and not c["auto"]:
                    return True
            return False
        if bad(c["src"]) or bad(c["dst"]):
            try:
                r = u.convert(Fraction(c["x"]), regs.pint_uc(u, c["src"], canonical=True), regs.pint_uc(u, c["dst"], canonical=True))
                if canon(sorted(c["src"])) != canon(sorted(c["dst"])):
                    v.append(f"{tag}: ambiguous offset-unit conversion returned {r}")
            except Exception as exc:  # noqa: BLE001
                if type(exc).__name__ not in ("DimensionalityError", "OffsetUnitCalculusError"):
                    v.append(f"{tag}: raised {type(exc).__name__}")
        return v

    def oracle_arith(self, c):
        v = []
        f = c["f"]
        if f not in ("add", "sub") or "b" not in c or "num" in c["b"] or len(c["b"]["u"]) != 1:
            return self.oracle_muldiv(c)
        a, b = c["a"]["u"][0][0], c["b"]["u"][0][0]
        if b == "meter":
            return v
        ka, kb = kind_of(a), kind_of(b)
        x, y = Fraction(c["a"]["m"]), Fraction(c["b"]["m"])
        sa, oa = self.so(a)
        sb, ob = self.so(b)
        u = self.reg(c["auto"])
        tag = f"C06 {x} {a} {'+' if f == 'add' else '-'} {y} {b}"
        try:
            r = self.apply(u, c)
            err = None
        except Exception as exc:  # noqa: BLE001
            r, err = None, type(exc).__name__
        sgn = 1 if f == "add" else -1
        want = None
        if ka == "O" and kb == "O":
            if f == "add":
                want = "OffsetUnitCalculusError"
            else:
                want = (x - (y * sb + ob - oa) / sa, "delta_" + a)
        elif ka == "O" and kb == "D":
            want = (x + sgn * y * sb / sa, a)
        elif ka == "D" and kb == "O" and f == "add":
            want = (x * sa / sb + y, b)
        elif ka == "O" and kb == "A" and f == "add":
            want = "OffsetUnitCalculusError"
        elif ka == "A" and kb == "O" and f == "add":
            want = "OffsetUnitCalculusError"
        elif ka in "DA" and kb in "DA":
            if ka == "D" and kb == "A":
                want = (x * sa / sb + sgn * y, b)
            else:
                want = (x + sgn * y * sb / sa, a)
        if want is None:
            return v
        if isinstance(want, str):
            if err != want:
                v.append(f"{tag}: expected {want}, got {r if err is None else err}")
        else:
            if err is not None:
                v.append(f"{tag}: raised {err}, documented result is {want[0]} {want[1]}")
            else:
                got = (Fraction(r.magnitude), list(r._units.keys()))
                if got[0] != want[0] or got[1] != [want[1]]:
                    v.append(f"{tag}: got {r!r}, documented result is {want[0]} {want[1]}")
        return v

    def oracle_muldiv(self, c):
        """products, quotients and powers of offset quantities: refused unless autoconvert, then via base units"""
        v = []
        f = c["f"]
        # an offset unit inside a compound unit never takes part in a product or quotient (in any mode)
        if f in ("mul", "div", "mulnum", "rtruediv") and c["a"]["u"]:
            operands = [c["a"]] + ([c["b"]] if isinstance(c.get("b"), dict) and "u" in c["b"] else [])
            if any(len(o["u"]) > 1 and any(kind_of(k) == "O" for k, _ in o["u"]) for o in operands):
                u = self.reg(c["auto"])
                try:
                    r = self.apply(u, c)
                    v.append(f"C06 {f} a={c['a']} b={c.get('b')} auto={c['auto']}: an offset unit inside a compound unit was "
                             f"multiplied / divided: {r!r} (OffsetUnitCalculusError expected)")
                except Exception as exc:  # noqa: BLE001
                    if type(exc).__name__ not in ("OffsetUnitCalculusError", "ZeroDivisionError"):
                        v.append(f"C06 {f} a={c['a']} b={c.get('b')} auto={c['auto']}: raised {type(exc).__name__}, not OffsetUnitCalculusError")
                return v
        if not c["a"]["u"]:
            return v
        a = c["a"]["u"][0][0]
        if kind_of(a) != "O" or f in ("eq", "lt", "neg", "floordiv", "mod", "add", "sub", "rsub"):
            return v
        u = self.reg(c["auto"])
        x = Fraction(c["a"]["m"])
        sa, oa = self.so(a)
        tag = f"C06 {f} a={x} {a} b={c.get('b')} x={c.get('x')} auto={c['auto']}"
        try:
            r = self.apply(u, c)
            err = None
        except Exception as exc:  # noqa: BLE001
            r, err = None, type(exc).__name__
        if err == "ZeroDivisionError":
            return v
        trivial_pow = f == "pow" and c["x"] in ("0/1", "1/1")
        mulnum = f in ("mulnum",) or (f == "mul" and "num" in c.get("b", {}))
        if not c["auto"] and not trivial_pow:
            if err != "OffsetUnitCalculusError":
                v.append(f"{tag}: must raise OffsetUnitCalculusError, got {r if err is None else err}")
            return v
        if c["auto"] and err is None and not trivial_pow and not mulnum:
            k = x * sa + oa     # value in kelvin
            if f == "pow":
                n = int(Fraction(c["x"]))
                if Fraction(r.magnitude) != k ** n or dict(r._units) != {"kelvin": n}:
                    v.append(f"{tag}: got {r!r}, expected {(k ** n)} kelvin**{n} (through base units)")
            if f == "rtruediv":
                if k != 0 and (Fraction(r.magnitude) != Fraction(c["x"]) / k or dict(r._units) != {"kelvin": -1}):
                    v.append(f"{tag}: got {r!r}, expected {Fraction(c['x']) / k} / kelvin")
        if c["auto"] and mulnum and err is None:
            if Fraction(r.magnitude) != x * Fraction(c["b"]["num"]) or list(r._units) != [a]:
                v.append(f"{tag}: got {r!r}, expected the quantity in the given unit")
        return v

    def fixed_probes(self):
        """the delta reading of offset units in compound expressions applies when asked for (as_delta None -> the registry default
        True, or True) and not when it is switched off"""
        v = []
        u = regs.fresh("float")
        for expr_, keys in (("degC/meter", ("degree_Celsius", "meter")), ("degF*second", ("degree_Fahrenheit", "second")),
                            ("degC**2", ("degree_Celsius",)), ("kilometer/degree_Celsius", ("kilometer", "degree_Celsius"))):
            for asd in (None, True, False):
                try:
                    got = set(u.parse_units(expr_, as_delta=asd)._units)
                except Exception as exc:  # noqa: BLE001
                    v.append(f"C06 parse_units({expr_!r}, as_delta={asd}) raised {type(exc).__name__}")
                    continue
                want = {("delta_" + k if (asd is not False and k.startswith("degree_")) else k) for k in keys}
                if got != want:
                    v.append(f"C06 parse_units({expr_!r}, as_delta={asd}) names {sorted(got)}, expected {sorted(want)}")
        # floor division, modulo and divmod follow the rule of true division: refused for offset scales, or through base units
        # in autoconvert mode (so the result does not depend on the scale the temperatures are written in)
        import operator
        for auto in (False, True):
            r = regs.fresh("float", autoconvert_offset_to_baseunit=auto)
            a, b = r.Quantity(10.0, "degree_Celsius"), r.Quantity(5.0, "degree_Celsius")
            ak, bk = r.Quantity(283.15, "kelvin"), r.Quantity(278.15, "kelvin")
            for name, op in (("//", operator.floordiv), ("%", operator.mod), ("divmod", divmod), ("//=", operator.ifloordiv), ("%=", operator.imod)):
                def run(x, y):
                    try:
                        res = op(r.Quantity(x.magnitude, x.units), y)
                        parts = res if isinstance(res, tuple) else (res,)
                        return ("ok", tuple(round(float(p_.to_root_units().magnitude), 9) for p_ in parts))
                    except Exception as exc:  # noqa: BLE001
                        return ("err", type(exc).__name__)
                got, ref = run(a, b), run(ak, bk)
                if not auto and got != ("err", "OffsetUnitCalculusError"):
                    v.append(f"C06 10 degC {name} 5 degC without autoconvert: {got}, OffsetUnitCalculusError expected (as for /)")
                if auto and got != ref:
                    v.append(f"C06 10 degC {name} 5 degC in autoconvert mode: {got}; the same temperatures in kelvin give {ref}")
        # a bare Unit divided by / dividing a number follows the rule of the quantity 1 * unit (refused for offset and
        # logarithmic units, or through base units in autoconvert mode)
        for auto in (False, True):
            r = regs.fresh("float", autoconvert_offset_to_baseunit=auto)

            def res(f):
                try:
                    q = f()
                    return ("ok", round(float(q.magnitude), 9), str(q.units))
                except Exception as exc:  # noqa: BLE001
                    return ("err", type(exc).__name__)
            for un in ("degree_Celsius", "degree_Fahrenheit", "decibel", "meter"):
                uu = getattr(r, un)
                for name, fu, fq in (("unit / 2", lambda: uu / 2, lambda: r.Quantity(1, uu) / 2),
                                     ("2 / unit", lambda: 2 / uu, lambda: 2 / r.Quantity(1, uu))):
                    got, ref = res(fu), res(fq)
                    if got != ref:
                        v.append(f"C06 {name} with unit = {un}, autoconvert={auto}: {got}; the quantity 1 {un} gives {ref}")
        # a Unit as right (or left) operand of * and / stands for the quantity 1 * unit: same refusal, same value
        for auto in (False, True):
            r = regs.fresh("float", autoconvert_offset_to_baseunit=auto)

            def res2(f):
                try:
                    q = f()
                    return ("ok", round(float(q.to_root_units().magnitude), 9), str(q.to_root_units().units))
                except Exception as exc:  # noqa: BLE001
                    return ("err", type(exc).__name__)
            for lm, lu in ((100.0, "kelvin"), (2.0, "joule"), (3.0, "meter"), (10.0, "degree_Celsius")):
                for un in ("degree_Celsius", "degree_Fahrenheit", "decibel", "second"):
                    uu = getattr(r, un)
                    for name, fu, fq in (("Q * unit", lambda: r.Quantity(lm, lu) * uu, lambda: r.Quantity(lm, lu) * r.Quantity(1, uu)),
                                         ("Q / unit", lambda: r.Quantity(lm, lu) / uu, lambda: r.Quantity(lm, lu) / r.Quantity(1, uu)),
                                         ("unit * Q", lambda: uu * r.Quantity(lm, lu), lambda: r.Quantity(1, uu) * r.Quantity(lm, lu))):
                        got, ref = res2(fu), res2(fq)
                        if got != ref:
                            v.append(f"C06 {name} with Q = {lm} {lu}, unit = {un}, autoconvert={auto}: {got}; with the quantity 1 {un} "
                                     f"in its place: {ref}")
        # autoconvert mode: a compound unit holding one offset unit goes through base units WITH its other factors
        r = regs.fresh("float", autoconvert_offset_to_baseunit=True)
        for uc_, dst, want in (({"degree_Celsius": 1, "millimeter": 1, "meter": -1}, "kelvin", 0.28315),
                               ({"degree_Celsius": 1, "meter": 1}, "kelvin * meter", 283.15),
                               ({"degree_Fahrenheit": 1, "second": -1}, "kelvin / second", (50 + 459.67) * 5 / 9)):
            x = 50.0 if "degree_Fahrenheit" in uc_ else 10.0
            try:
                got = r.Quantity(x, r.UnitsContainer(uc_)).to(dst).magnitude
                if abs(got - want) > 1e-9 * abs(want):
                    v.append(f"C06 autoconvert: {x} {uc_} -> {dst} = {got}, through base units it is {want}")
            except Exception as exc:  # noqa: BLE001
                v.append(f"C06 autoconvert: {x} {uc_} -> {dst} raised {type(exc).__name__}: {exc}")
        try:
            got = r.Quantity(10.0, r.UnitsContainer({"degree_Celsius": 1, "meter": 1})).to_root_units()
            if abs(got.magnitude - 283.15) > 1e-9 or dict(got._units) != {"kelvin": 1, "meter": 1}:
                v.append(f"C06 autoconvert: (10 degC*m).to_root_units() = {got!r}, through base units it is 283.15 kelvin * meter")
        except Exception as exc:  # noqa: BLE001
            v.append(f"C06 autoconvert: (10 degC*m).to_root_units() raised {type(exc).__name__}: {exc}")
        # the mode is a setting of the registry that can be switched at run time: after a switch every answer is the one a registry
        # built in that mode gives, whatever was converted before the switch
        def answers(reg_):
            out = []
            for ucd, dst in (({"degree_Celsius": 1, "meter": 1}, "kelvin * meter"), ({"degree_Fahrenheit": 1, "second": -1}, "kelvin / second"),
                             ({"degree_Celsius": 1}, "kelvin"), ({"delta_degree_Celsius": 1, "meter": 1}, "kelvin * meter")):
                q = reg_.Quantity(10.0, reg_.UnitsContainer(ucd))
                for name, fn in (("to", lambda q=q, dst=dst: q.to(dst).magnitude), ("to_root_units", lambda q=q: q.to_root_units().magnitude),
                                 ("m_as", lambda q=q, dst=dst: q.m_as(dst)), ("<", lambda q=q: bool(q < q * 1 if False else q < reg_.Quantity(20.0, q.units))),
                                 ("== dst", lambda q=q, dst=dst: bool(q == reg_.Quantity(283.15, dst)))):
                    try:
                        val = fn()
                        out.append((str(sorted(ucd.items())), name, round(val, 9) if isinstance(val, float) else val))
                    except Exception as exc:  # noqa: BLE001
                        out.append((str(sorted(ucd.items())), name, type(exc).__name__))
            return out
        ref = {m: answers(regs.fresh("float", autoconvert_offset_to_baseunit=m)) for m in (False, True)}
        for first in (True, False):
            r = regs.fresh("float", autoconvert_offset_to_baseunit=first)
            seq = [first, not first, first]
            for mode in seq:
                r.autoconvert_offset_to_baseunit = mode
                got = answers(r)
                for g, w in zip(got, ref[mode]):
                    if g != w:
                        v.append(f"C06 one registry switched through autoconvert_offset_to_baseunit = {seq[:seq.index(mode) + 1] if mode != first else seq}: "
                                 f"10 {g[0]} {g[1]} gives {g[2]}, a registry built with autoconvert_offset_to_baseunit={mode} gives {w[2]}")
                        break
        # autoconvert mode, compound -> compound sharing the SAME offset / logarithmic unit with different other factors: the
        # direct conversion is the one through the reference unit (defining map, the other factors scaled there, and back)
        import math
        ra = regs.fresh("float", autoconvert_offset_to_baseunit=True)
        for val, src_, mid1, mid2, dst_ in ((10.0, {"degree_Celsius": 1, "meter": -1}, "kelvin / meter", "kelvin / kilometer", {"degree_Celsius": 1, "kilometer": -1}),
                                            (50.0, {"degree_Fahrenheit": 1, "second": 1}, "kelvin * second", "kelvin * millisecond", {"degree_Fahrenheit": 1, "millisecond": 1}),
                                            (-20.0, {"decibelmilliwatt": 1, "hertz": -1}, "milliwatt / hertz", "milliwatt / kilohertz", {"decibelmilliwatt": 1, "kilohertz": -1})):
            try:
                q = ra.Quantity(val, ra.UnitsContainer(src_))
                direct = q.to(ra.UnitsContainer(dst_)).magnitude
                steps = q.to(mid1).to(mid2).to(ra.UnitsContainer(dst_)).magnitude
                back = ra.Quantity(direct, ra.UnitsContainer(dst_)).to(ra.UnitsContainer(src_)).magnitude
            except Exception:  # noqa: BLE001
                continue            # refusing is the other documented behaviour
            if not math.isclose(direct, steps, rel_tol=1e-9, abs_tol=1e-9):
                v.append(f"C06 autoconvert: {val} {src_} -> {dst_} gives {direct}; through the reference unit ({mid1} -> {mid2}) it is {steps}")
            elif not math.isclose(back, val, rel_tol=1e-7, abs_tol=1e-7):
                v.append(f"C06 autoconvert: {val} {src_} -> {dst_} -> back gives {back}")
        # an offset unit defined a second time (on_redefinition = 'ignore'): the unit AND its delta companion follow the definition
        # in force - delta converts by the new scale only, differences and offset + delta likewise
        import pint as _pint
        for tname in ("float",):
            rr = _pint.UnitRegistry(on_redefinition="ignore")
            for n_, (sc, off) in enumerate(((2.0, 10.0), (5.0, 3.0), (0.5, -7.0))):
                try:
                    rr.define(f"degX06 = {sc} * kelvin; offset: {off} = dX06")
                    got = {"1 degX06 -> K": rr.Quantity(1.0, "degX06").to("kelvin").magnitude,
                           "1 delta_degX06 -> K": rr.Quantity(1.0, "delta_degX06").to("kelvin").magnitude,
                           "3 degX06 - 1 degX06 -> K": (rr.Quantity(3.0, "degX06") - rr.Quantity(1.0, "degX06")).to("kelvin").magnitude,
                           "1 degX06 + 1 delta_degX06 -> K": (rr.Quantity(1.0, "degX06") + rr.Quantity(1.0, "delta_degX06")).to("kelvin").magnitude,
                           "7 K -> delta_degX06": rr.Quantity(7.0, "kelvin").to("delta_degX06").magnitude}
                    want = {"1 degX06 -> K": sc + off, "1 delta_degX06 -> K": sc, "3 degX06 - 1 degX06 -> K": 2 * sc,
                            "1 degX06 + 1 delta_degX06 -> K": 2 * sc + off, "7 K -> delta_degX06": 7.0 / sc}
                except Exception as exc:  # noqa: BLE001
                    v.append(f"C06 degX06 = {sc} * kelvin; offset: {off} (definition number {n_ + 1}) raised {type(exc).__name__}: {exc}")
                    continue
                for k_ in want:
                    if not math.isclose(got[k_], want[k_], rel_tol=1e-9, abs_tol=1e-9):
                        v.append(f"C06 degX06 = {sc} * kelvin; offset: {off} (definition number {n_ + 1} of the unit): {k_} gives {got[k_]}, the "
                                 f"definition in force says {want[k_]}")
        # the difference of two logarithmic quantities: no delta counterpart of a logarithmic unit exists
        r = regs.fresh("float")
        try:
            d = r.Quantity(5.0, "decibel") - r.Quantity(10.0, "decibel")
            bad = [k for k in d._units if k not in r._units and k != "dimensionless"]
            if bad:
                v.append(f"C06 5 dB - 10 dB = {d!r}: the unit {bad[0]} is not defined (neither refused nor a usable quantity) "
                         f"[known finding F75]")
        except Exception:  # noqa: BLE001
            pass
        return v

    def oracle_log(self, c):
        """(also runs the fixed probes once) logarithmic units against the defining map x_lin = scale * logbase ** (x / logfactor), with scale, logbase and
        logfactor read from the definition file by the independent reader: scalar and array magnitudes, functional and
        in-place conversions, log -> linear -> log and log -> log"""
        v = []
        if not getattr(self, "_fixed_done", False):
            self._fixed_done = True
            v += self.fixed_probes()
        import numpy as np
        u = regs.ureg("float", autoconvert_offset_to_baseunit=True)
        P = regs.pools()
        rec = P.proj.unit_by_key[c["unit"]]
        scale = float(rec["scale"]) if not isinstance(rec["scale"], regs.D.Irr) else rec["scale"].approx
        base, fac = (float(rec["modifiers"][k]) if not isinstance(rec["modifiers"][k], regs.D.Irr) else rec["modifiers"][k].approx
                     for k in ("logbase", "logfactor"))
        ref = u.Unit(u._units[c["unit"]].reference)
        x = c["x"]
        tag = f"C06 log {x} {c['unit']}"

        def lin_of(z):
            return scale * math.exp(math.log(base) * (z / fac))
        try:
            lin = u.Quantity(x, c["unit"]).to(ref).magnitude
            want = lin_of(x)
            if not math.isclose(lin, want, rel_tol=1e-12):
                v.append(f"{tag}: to reference gives {lin!r}, defining map gives {want!r}")
            back = u.Quantity(lin, ref).to(c["unit"]).magnitude
            if not math.isclose(back, x, rel_tol=1e-9, abs_tol=1e-9):
                v.append(f"{tag}: round trip gives {back!r}")
            # arrays, functional and in place
            xs = [x, x + 10.0, x - 3.0]
            wants = [lin_of(z) for z in xs]
            qa = u.Quantity(np.array(xs), c["unit"])
            fa = qa.to(ref).magnitude
            qi = u.Quantity(np.array(xs), c["unit"])
            qi.ito(ref)
            for label, got in (("array .to", fa), ("array .ito (in place)", qi.magnitude)):
                if not all(math.isclose(g, w, rel_tol=1e-12) for g, w in zip(got, wants)):
                    v.append(f"{tag}: {label} of {xs} gives {list(got)!r}, defining map gives {wants!r}")
            qi.ito(c["unit"])
            if not all(math.isclose(g, w, rel_tol=1e-9, abs_tol=1e-9) for g, w in zip(qi.magnitude, xs)):
                v.append(f"{tag}: in-place round trip of {xs} gives {list(qi.magnitude)!r}")
            if list(qa.magnitude) != xs:
                v.append(f"{tag}: .to altered its operand: {list(qa.magnitude)!r}")
            # log -> log between units of the same reference
            for other in LOGS:
                if other == c["unit"] or u._units[other].reference != u._units[c["unit"]].reference:
                    continue
                ro = P.proj.unit_by_key[other]
                so = float(ro["scale"]) if not isinstance(ro["scale"], regs.D.Irr) else ro["scale"].approx
                bo, fo = (float(ro["modifiers"][k]) if not isinstance(ro["modifiers"][k], regs.D.Irr) else ro["modifiers"][k].approx
                          for k in ("logbase", "logfactor"))
                want_o = [fo * math.log(w / so) / math.log(bo) for w in wants]
                go = u.Quantity(np.array(xs), c["unit"]).to(other).magnitude
                gi = u.Quantity(np.array(xs), c["unit"])
                gi.ito(other)
                for label, got in ((".to", go), (".ito (in place)", gi.magnitude)):
                    if not all(math.isclose(g, w, rel_tol=1e-9, abs_tol=1e-9) for g, w in zip(got, want_o)):
                        v.append(f"{tag}: {label} {other} of {xs} gives {list(got)!r}, the defining maps give {want_o!r}")
            # a logarithmic unit inside a compound unit (spectral densities: dBm/Hz): the other units scale the linear value
            if u._units[c["unit"]].reference:
                per = u.UnitsContainer({c["unit"]: 1, "hertz": -1})
                lin_per = u.Unit(u._units[c["unit"]].reference) / u.Unit("kilohertz")
                got = u.Quantity(x, u.Unit(per)).to(lin_per).magnitude
                if not math.isclose(got, lin_of(x) * 1000.0, rel_tol=1e-9):
                    v.append(f"{tag}: {x} {c['unit']}/Hz -> {lin_per} gives {got!r}, the defining map gives {lin_of(x) * 1000.0!r}")
                backc = u.Quantity(lin_of(x) * 1000.0, lin_per).to(u.Unit(per)).magnitude
                if not math.isclose(backc, x, rel_tol=1e-9, abs_tol=1e-9):
                    v.append(f"{tag}: {lin_of(x) * 1000.0} {lin_per} -> {c['unit']}/Hz gives {backc!r}, expected {x}")
                for other in LOGS:
                    if other == c["unit"] or u._units[other].reference != u._units[c["unit"]].reference:
                        continue
                    ro = P.proj.unit_by_key[other]
                    so = float(ro["scale"]) if not isinstance(ro["scale"], regs.D.Irr) else ro["scale"].approx
                    bo, fo = (float(ro["modifiers"][k]) if not isinstance(ro["modifiers"][k], regs.D.Irr) else ro["modifiers"][k].approx
                              for k in ("logbase", "logfactor"))
                    want_c = fo * math.log(lin_of(x) * 1000.0 / so) / math.log(bo)
                    gc = u.Quantity(x, u.Unit(per)).to(u.Unit(u.UnitsContainer({other: 1, "kilohertz": -1}))).magnitude
                    if not math.isclose(gc, want_c, rel_tol=1e-9, abs_tol=1e-9):
                        v.append(f"{tag}: {x} {c['unit']}/Hz -> {other}/kHz gives {gc!r}, the defining maps give {want_c!r}")
        except Exception as exc:  # noqa: BLE001
            v.append(f"{tag}: raised {type(exc).__name__}: {exc}")
        return v
