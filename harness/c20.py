"""C20 — the bundled registry carries the internationally standardised values."""
from __future__ import annotations

import os
import sys
from fractions import Fraction

from . import regs
from .core import Property, capture, frac_s, canon, VERIF

sys.path.insert(0, os.path.join(VERIF, "tools"))
import gen as G  # noqa: E402


class Check(Property):
    ID = "C20"
    PROPS_FILE = "PintModel/Props/C20.lean"
    MODULE = "PintModel.Props.C20"
    RULE = ("every row of the curated tables spec/standards.tsv (units, constants, temperature scales) and "
            "spec/prefixes.tsv (24 SI + 8 binary prefixes): exhaustive; non-trivial = rows whose factor is not 1")
    TRUSTED = ["the curated tables spec/standards.tsv, spec/prefixes.tsv (SI brochure, NIST SP 811 / HB 44, CODATA 2022)"]
    PARTIAL = ["float registry: compared within 4 ulp (numeric)"]

    def cases(self):
        out = []
        for r in G.read_standards():
            u = [[r["name"], "1/1"]]
            out.append({"kind": "unit", "name": r["name"], "factor": frac_s(r["factor"]),
                        "dims": [[k, frac_s(v)] for k, v in r["dims"].items()], "symbol": r["symbol"],
                        "offset": None if r["offset"] is None else frac_s(r["offset"]),
                        "ops": [{"op": "root", "u": u}, {"op": "dim", "u": u}, {"op": "unit_info", "s": r["name"]}]})
        for p in G.read_prefix_standards():
            out.append({"kind": "prefix", "name": p["name"], "symbol": p["symbol"], "value": frac_s(p["value"]),
                        "ops": [{"op": "root", "u": [[p["name"] + "meter", "1/1"]]},
                                {"op": "root", "u": [[p["symbol"] + "m", "1/1"]]}]})
        self.stats["rows"] = len(out)
        return out

    def impl(self, c):
        u = regs.ureg("fraction")
        if c["kind"] == "prefix":
            def root(s):
                f, b = u.get_root_units(s)
                return [frac_s(Fraction(f)), sorted([k, frac_s(regs.to_frac(v))] for k, v in b._units.items())]
            return [capture(lambda: root(c["name"] + "meter")), capture(lambda: root(c["symbol"] + "m"))]
        name = c["name"]

        def root():
            f, b = u.get_root_units(u.UnitsContainer({name: 1}), check_nonmult=False)
            return [frac_s(Fraction(f)), sorted([k, frac_s(regs.to_frac(v))] for k, v in b._units.items())]

        def dim():
            return sorted([k, frac_s(regs.to_frac(v))] for k, v in u.get_dimensionality(u.UnitsContainer({name: 1})).items())

        def info():
            d = u._units[name]
            return {"name": d.name, "symbol": d.symbol, "mult": d.is_multiplicative, "base": d.is_base}
        return [capture(root), capture(dim), capture(info)]

    def nontrivial(self, c, io):
        if c["kind"] == "prefix" or c["factor"] != "1/1":
            return c["kind"] + ":" + c["name"]
        return None

    def oracle(self, c):
        v = []
        if c["kind"] == "prefix":
            want = Fraction(c["value"])
            for tname in ("fraction", "float"):
                u = regs.ureg(tname)
                for s in (c["name"] + "meter", c["symbol"] + "m"):
                    try:
                        got = u.Quantity(1, s).to("meter").magnitude
                    except Exception as exc:  # noqa: BLE001
                        v.append(f"C20 prefix {c['name']}: 1 {s} -> meter raised {type(exc).__name__}")
                        continue
                    if tname == "fraction" and Fraction(got) != want:
                        v.append(f"C20 prefix {c['name']} ({s}) = {got}, standard value {want}")
                    if tname == "float" and abs(Fraction(got) / want - 1) > Fraction(4, 2 ** 52):
                        v.append(f"C20 prefix {c['name']} ({s}) = {got!r}, standard value {float(want)!r}")
                if str(u.Unit(c["name"] + "meter").__format__("~")) != c["symbol"] + "m":
                    v.append(f"C20 prefix {c['name']}: symbol is not {c['symbol']}")
            return v
        name = c["name"]
        want = Fraction(c["factor"])
        wdims = {k: Fraction(x) for k, x in c["dims"]}
        for tname in ("fraction", "float"):
            u = regs.ureg(tname)
            try:
                f, b = u.get_root_units(u.UnitsContainer({name: 1}), check_nonmult=False)
                dims = {k: regs.to_frac(x) for k, x in u.get_dimensionality(u.UnitsContainer({name: 1})).items()}
                d = u._units[name]
            except Exception as exc:  # noqa: BLE001
                v.append(f"C20 {name}: lookup raised {type(exc).__name__}: {exc}")
                continue
            if tname == "fraction" and (isinstance(f, float) or Fraction(f) != want):
                v.append(f"C20 {name}: factor to root units is {f} but the standard value is {want} ({float(want)!r})")
            if tname == "float" and abs(Fraction(f) / want - 1) > Fraction(8, 2 ** 52):
                v.append(f"C20 {name}: float factor {f!r} differs from the standard value {float(want)!r}")
            if dims != wdims:
                v.append(f"C20 {name}: dimensionality {dims} but the standard dimensionality is {wdims}")
            if c["symbol"] is not None and d.symbol != c["symbol"]:
                v.append(f"C20 {name}: symbol {d.symbol!r} but the standard symbol is {c['symbol']!r}")
            off = getattr(d.converter, "offset", 0)
            woff = Fraction(c["offset"]) if c["offset"] is not None else Fraction(0)
            if tname == "fraction" and Fraction(off) != woff:
                v.append(f"C20 {name}: offset {off} but the standard offset is {woff}")
        # "converts to SI with exactly its standardised factor": through the conversion entry points of the default (float)
        # registry with every kind of magnitude - int, float, Fraction, Decimal: the factor to 12 significant digits at least
        if c["offset"] is None or Fraction(c["offset"]) == 0:
            from decimal import Decimal
            uf = regs.ureg("float")
            for label, mag in (("int", 1), ("float", 1.0), ("Fraction", Fraction(1)), ("Decimal", Decimal(1)), ("Decimal", Decimal("2.5"))):
                for entry in ("to_root_units", "convert"):
                    try:
                        if entry == "to_root_units":
                            got = uf.Quantity(mag, name).to_root_units().magnitude
                        else:
                            _, ru = uf.get_root_units(name)
                            got = uf.convert(mag, name, ru)
                        ratio = Fraction(got) / (want * Fraction(mag))
                    except Exception:  # noqa: BLE001
                        continue          # (a refusal is not a wrong factor; Decimal x float offsets are refused by Python)
                    if abs(ratio - 1) > Fraction(1, 10 ** 12):
                        v.append(f"C20 {name}: {entry} of the {label} magnitude {mag} gives {got}, the standard factor is {float(want)!r}")
                        break
            # ... and through to_base_units of the default (mks) system, on a registry that has first been asked for the same unit
            # under the other bundled systems: the SI base units (kilogram, not gram) with the standard factor
            if not hasattr(self, "_hist_reg"):
                self._hist_reg = regs.fresh("fraction")
            uh = self._hist_reg
            try:
                for sysname in ("imperial", "cgs", "US"):
                    try:
                        uh.get_base_units(name, system=sysname)
                    except Exception:  # noqa: BLE001
                        pass
                qb = uh.Quantity(Fraction(1), name).to_base_units()
                mass_e = wdims.get("[mass]", Fraction(0))
                if mass_e.denominator == 1 and not isinstance(qb.magnitude, float):
                    want_b = want / Fraction(1000) ** int(mass_e)
                    names_b = set(dict(qb._units))
                    if "gram" in names_b or Fraction(qb.magnitude) != want_b:
                        v.append(f"C20 {name}: 1 {name}.to_base_units() in the default system ({uh.default_system}), after base units were asked under "
                                 f"imperial / cgs / US, is {qb.magnitude} {qb.units}; in SI base units the standard factor is {want_b}")
            except Exception as exc:  # noqa: BLE001
                v.append(f"C20 {name}: to_base_units after questions about other systems raised {type(exc).__name__}: {exc}")
        return v
