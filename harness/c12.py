"""C12 — context activation is scoped, stack-like, atomic and leaves no residue."""
from __future__ import annotations

import copy
import logging
from fractions import Fraction

from . import regs, c11
from .core import Property, capture, frac_s, canon, err_name

PROBES = [("1/1", "foot", "meter"), ("1/1", "pound", "gram"), ("3/1", "mile", "kilometer"), ("2/1", "meter", "second"),
          ("1/1", "yard", "inch")]


def gen_case(rng, tier):
    c = c11.gen_case(rng, tier)
    uid = c["uid"]
    # a context whose activation fails part-way (after the good redefinitions of earlier contexts were applied)
    bad = {"name": f"bad{uid}", "aliases": [], "defaults": {}, "rules": [], "bad": True,
           "redefs": [rng.choice([["nosuchunit", "3/1", "meter"], ["foot", "3/1", "second"], ["meter", "2/1", "inch"]])]}
    c["contexts"].append(bad)
    names = [x["name"] for x in c["contexts"] if not x.get("bad")]
    valid = set()
    for x in c["contexts"]:
        if not x.get("bad"):
            valid |= {x["name"]} | set(x["aliases"])
    steps = []
    depth = 0
    for _ in range(rng.randint(3, 7) if tier == "quick" else rng.randint(5, 14)):
        r = rng.random()
        if r < 0.3:
            chosen = [rng.choice(sorted(valid)) for _ in range(rng.randint(1, 2))]
            if rng.random() < 0.3:
                chosen.insert(rng.randint(0, len(chosen)), rng.choice(["nosuchctx", bad["name"]]))
            ok = all(n in valid for n in chosen)
            steps.append({"f": "enable", "names": chosen, "kw": [], "ok": ok})
            if ok:
                depth += len(chosen)
        elif r < 0.45 and depth > 0:
            n = rng.choice([1, 1, 2, None, 0])      # (0: nothing is disabled)
            steps.append({"f": "disable", "n": n})
            depth = 0 if n is None else max(0, depth - n)
        elif r < 0.7:
            chosen = [rng.choice(sorted(valid)) for _ in range(rng.choice([1, 1, 2, 2, 0]))]      # (0: an empty with-block)
            if rng.random() < 0.3:
                chosen.append(rng.choice(["nosuchctx", bad["name"]]))
            ok = all(n in valid for n in chosen)
            steps.append({"f": "with", "names": chosen, "ok": ok, "raise": rng.random() < 0.4,
                          # a block of one context is entered through the with_context decorator half of the time
                          "deco": len(chosen) == 1 and rng.random() < 0.5,
                          "inner": [{"x": p[0], "src": p[1], "dst": p[2]} for p in rng.sample(PROBES, 2)]})
        else:
            p = rng.choice(PROBES)
            steps.append({"f": "probe", "x": p[0], "src": p[1], "dst": p[2]})
    c["steps"] = steps
    return c


def model_ops(case):
    ops = [{"op": "reset"}]
    for cx in case["contexts"]:
        ops.append({"op": "ctx", "f": "add", "ctx": c11.ctx_json(cx)})

    def cv(p):
        return {"op": "ctx", "f": "convert", "x": p["x"], "src": [[p["src"], "1/1"]], "dst": [[p["dst"], "1/1"]]}
    for s in case["steps"]:
        if s["f"] == "enable":
            ops.append({"op": "ctx", "f": "enable", "names": s["names"], "kw": []})
        elif s["f"] == "disable":
            o = {"op": "ctx", "f": "disable"}
            if s["n"] is not None:
                o["n"] = frac_s(s["n"])
            ops.append(o)
        elif s["f"] == "with":
            ops.append({"op": "ctx", "f": "enable", "names": s["names"], "kw": []})
            if s["ok"]:
                for p in s["inner"]:
                    ops.append(cv(p))
                ops.append({"op": "ctx", "f": "disable", "n": frac_s(len(s["names"]))})
        else:
            ops.append(cv(s))
        ops.append({"op": "ctx", "f": "active"})
    for p in PROBES:
        ops.append({"op": "ctx", "f": "disable"} if p is PROBES[0] else {"op": "ctx", "f": "active"})
    for p in PROBES:
        ops.append(cv({"x": p[0], "src": p[1], "dst": p[2]}))
    ops.append({"op": "ctx", "f": "clear"})
    ops.append({"op": "reset"})
    return ops


class Boom(Exception):
    pass


class Check(Property):
    ID = "C12"
    PROPS_FILE = "PintModel/Props/C12.lean"
    MODULE = "PintModel.Props.C12"
    RULE = ("scenarios over 1-3 generated contexts plus one context whose redefinition is invalid: random sequences "
            "of enable (valid, unknown name, failing part-way), disable(n), with-blocks (left normally or through an "
            "exception, or never entered because activation fails) and probes; after every step the active stack and "
            "a probe set are compared with the stack model, and at the end every observation must equal the "
            "observation before the first activation; non-trivial = distinct scenarios with a failing activation or "
            "an exceptional exit")
    PARTIAL = ["the overlay/units caches of the implementation are not modelled: the model is the stack specification "
               "itself, the implementation is compared with it on every probe",
               "in-place normalisation of a shared Context on first activation (finding F7) is checked by the oracle"]

    def cases(self):
        rng = self.rng
        out = []
        for _ in range(250 if self.tier == "quick" else 4000):
            c = gen_case(rng, self.tier)
            c["ops"] = model_ops(c)
            self.bump("scenario")
            for s in c["steps"]:
                self.bump("step." + s["f"] + ("" if s.get("ok", True) else ".failing"))
            out.append(c)
        return out

    _runner = []

    def runner(self):
        if not self._runner:
            self._runner.append(c11.Runner())
        return self._runner[0]

    def observe(self, u):
        out = []
        for x, a, b in PROBES:
            def one(x=x, a=a, b=b):
                m = u.Quantity(Fraction(x), a).to(b).magnitude
                return frac_s(Fraction(m))
            out.append(capture(one))
            # "every observable answer": the same through the registry-level accessors (they keep their own memos)
            for acc in ("get_base_units", "get_root_units"):
                def two(a=a, acc=acc):
                    f, un = getattr(u, acc)(a)
                    return [frac_s(Fraction(f)), sorted([k, frac_s(Fraction(e))] for k, e in un._units.items())]
                out.append(capture(two))
        return out

    def active_j(self, u):
        return {"ok": [[c.name, sorted([k, frac_s(Fraction(v))] for k, v in c.defaults.items())] for c in u._active_ctx.contexts]}

    def run(self, c, record=None):
        import pint
        rn = self.runner()
        u = rn.u
        outs = [{"ok": None}]
        added = []
        logging.disable(logging.CRITICAL)
        try:
            for cx in c["contexts"]:
                ctx = pint.Context.from_lines(c11.ctx_lines(cx), u.get_dimensionality, non_int_type=Fraction)
                u.add_context(ctx)
                added.append(ctx)
                outs.append({"ok": None})

            def conv(p):
                def f():
                    return [frac_s(Fraction(u.Quantity(Fraction(p["x"]), p["src"]).to(p["dst"]).magnitude))]
                return capture(f)
            for s in c["steps"]:
                if s["f"] == "enable":
                    o = capture(lambda: u.enable_contexts(*s["names"]))
                    outs.append(self.active_j(u) if "ok" in o else o)
                elif s["f"] == "disable":
                    u.disable_contexts(s["n"])
                    outs.append(self.active_j(u))
                elif s["f"] == "with":
                    inner = []

                    def body():
                        inner.append(self.active_j(u))
                        for p in s["inner"]:
                            inner.append(conv(p))
                        if s["raise"]:
                            raise Boom()
                    try:
                        if s.get("deco"):
                            u.with_context(s["names"][0])(body)()
                        else:
                            with u.context(*s["names"]):
                                body()
                        inner.append(self.active_j(u))
                    except Boom:
                        inner.append(self.active_j(u))
                    except Exception as exc:  # noqa: BLE001
                        inner = [{"err": err_name(exc)}]
                    outs.extend(inner)
                else:
                    outs.append(conv(s))
                outs.append(self.active_j(u))
            u.disable_contexts()
            outs.append(self.active_j(u))
            for _ in PROBES[1:]:
                outs.append(self.active_j(u))
            for p in PROBES:
                outs.append(conv({"x": p[0], "src": p[1], "dst": p[2]}))
        finally:
            try:
                u.disable_contexts()
            except Exception:  # noqa: BLE001
                pass
            for ctx in added:
                try:
                    u.remove_context(ctx.name)
                except Exception:  # noqa: BLE001
                    pass
            logging.disable(logging.NOTSET)
        outs += [{"ok": None}, {"ok": None}]
        return outs

    def impl(self, c):
        return self.run(c)

    def same(self, c, io, mo):
        if len(io) != len(mo):
            return False
        for i, m in zip(io, mo):
            if i == {"ok": None}:
                continue
            if "any" in m:
                if not any("ok" in x and "ok" in i and [x["ok"]] == i["ok"] or ("err" in x and "err" in i) for x in m["any"]):
                    return False
                continue
            if "err" in m and "err" in i:
                continue
            if canon(i) != canon(m):
                return False
        return True

    def nontrivial(self, c, io):
        if any((not s.get("ok", True)) or s.get("raise") for s in c["steps"]):
            return c["uid"]
        return None

    # ------------------------------------------------------------------ oracle: the property itself
    def shared_context_probe(self):
        """a Context built in code (keys given as derived dimension names) and shared between two registries must not
        be modified by being activated in one of them"""
        import pint
        v = []
        u1, u2 = regs.fresh("float"), regs.fresh("float")
        ctx = pint.Context("c12shared", defaults={"n": 1})
        ctx.add_transformation("[length]", "[time]", lambda ureg, x, n: x * n * ureg.second / ureg.meter)
        ctx.add_transformation("[speed]", "[mass]", lambda ureg, x, n: x * n * ureg.gram * ureg.second / ureg.meter)
        before = ([str(k) for k in ctx.funcs], dict(ctx.defaults), ctx.checked)
        u1.add_context(ctx)
        with u1.context("c12shared", n=3):
            u1.Quantity(2, "m").to("s")
        # re-entered without the parameter: the declared default applies and the rules (written on derived dimensions) still work
        try:
            with u1.context("c12shared"):
                r1 = u1.Quantity(2, "m/s").to("g").magnitude
            r2 = u1.Quantity(2, "m/s").to("g", "c12shared", n=5).magnitude
            if (r1, r2) != (2.0, 10.0):
                v.append(f"C12 a context entered with n=3, then without a parameter, then with n=5 converts 2 m/s to {r1} g and {r2} g; "
                         f"its rule value * n gives 2 g and 10 g")
        except Exception as exc:  # noqa: BLE001
            v.append(f"C12 a context entered with a parameter and re-entered without one no longer converts: {type(exc).__name__}: {exc}")
        after = ([str(k) for k in ctx.funcs], dict(ctx.defaults), ctx.checked)
        if after != before:
            v.append(f"C12 [known finding F7] a Context shared between registries was modified by its first activation: "
                     f"transformation keys / defaults / checked {before} -> {after}")
        u2.add_context(ctx)
        try:
            with u2.context("c12shared"):
                if u2.Quantity(2, "m/s").to("g").magnitude != 2.0:
                    v.append("C12 the second registry converts differently through the shared context")
        except Exception as exc:  # noqa: BLE001
            v.append(f"C12 the shared context, after its use in one registry, does not convert in a second one: {type(exc).__name__}: {exc}")
        # ... and when the two registries reduce the rule's dimensions differently, the shared object stops working in the second
        ra = regs.fresh("float")
        rb = pint.UnitRegistry(["meter = [length] = m", "second = [time] = s", "hertz = [frequency] = Hz"])
        mk = lambda: pint.Context("c12x")                                                             # noqa: E731
        shared, fresh_ = mk(), mk()
        for c_ in (shared, fresh_):
            c_.add_transformation("[length]", "[frequency]", lambda ureg, x: 3 * ureg.Hz / ureg.m * x)
        try:
            want = rb.Quantity(2.0, "m").to("Hz", fresh_).magnitude
            ra.Quantity(2.0, "m").to("Hz", shared)
            try:
                got = rb.Quantity(2.0, "m").to("Hz", shared).magnitude
            except Exception as exc:  # noqa: BLE001
                got = type(exc).__name__
            if got != want:
                v.append(f"C12 [known finding F7] a Context used in a registry where [frequency] is 1/[time] and then in one where it is a base "
                         f"dimension: 2 m -> Hz gives {got} there, an identical fresh context gives {want}")
        except Exception as exc:  # noqa: BLE001
            v.append(f"C12 shared-context probe raised {type(exc).__name__}: {exc}")
        return v

    def failing_activation_probe(self):
        """activations that fail for a reason other than an unknown name or an invalid redefinition: a parameter value that
        cannot be hashed (the stack of a context with redefinitions is keyed by its parameters).  A failed activation changes
        nothing."""
        import pint
        v = []
        try:
            u = regs.fresh("float")
            c = pint.Context("c12bad")
            c.add_transformation("[length]", "[time]", lambda ureg, x, n=1: x / ureg.Quantity(n, "m/s"))
            c.redefine("pound = 0.5 kg")
            u.add_context(c)
            outer = pint.Context("c12outer")
            outer.add_transformation("[mass]", "[time]", lambda ureg, x: x / ureg.Quantity(1, "kg/s"))
            u.add_context(outer)
            for pre in ((), ("c12outer",)):
                if pre:
                    u.enable_contexts(*pre)
                names0 = [x.name for x in u._active_ctx.contexts]
                lb0 = u.Quantity(1.0, "pound").to("kg").magnitude
                for bad in ([1, 2], {"a": 1}):
                    try:
                        u.enable_contexts("c12bad", n=bad)
                        u.disable_contexts(1)
                        continue                      # accepted: nothing to judge
                    except Exception:  # noqa: BLE001
                        pass
                    names1 = [x.name for x in u._active_ctx.contexts]
                    lb1 = u.Quantity(1.0, "pound").to("kg").magnitude
                    try:
                        u.Quantity(1.0, "m").to("s")
                        conv = "1 m converts to seconds"
                    except Exception:  # noqa: BLE001
                        conv = None
                    if names1 != names0 or lb1 != lb0 or conv:
                        v.append(f"C12 a failed activation (parameter n={bad!r} cannot be hashed) changed the registry: active contexts "
                                 f"{names0} -> {names1}, 1 pound = {lb0} -> {lb1} kg, {conv or 'no length -> time rule usable'}")
                        u.disable_contexts(len(names1) - len(names0))
                u.disable_contexts()
        except Exception as exc:  # noqa: BLE001
            v.append(f"C12 failing-activation probe raised {type(exc).__name__}: {exc}")
        return v

    def failed_then_define_probe(self):
        """a failed activation changes nothing - also not what LATER definitions do: two registries receive the same operations,
        one of them also suffers activations that fail part-way through their redefinitions; every answer afterwards is the same"""
        import pint
        v = []

        def run(with_failure):
            u = regs.fresh("float")
            good = pint.Context("c12good")
            good.redefine("foot = 0.5 m")
            bad = pint.Context("c12bad2")
            bad.redefine("yard = 1 m")
            bad.redefine("meter = 2 inch")          # refused: a base unit cannot be redefined
            u.add_context(good), u.add_context(bad)
            out = [u.Quantity(1, "inch").to("cm").magnitude, u.Quantity(1, "foot").to("cm").magnitude, str(u.parse_units("inches"))]
            if with_failure:
                for names in (("c12bad2",), ("c12good", "c12bad2")):
                    try:
                        u.enable_contexts(*names)
                        u.disable_contexts(len(names))
                    except Exception:  # noqa: BLE001
                        pass
                out.append(len(u._active_ctx.contexts))
            else:
                out.append(0)
            u.define("inch = 3 cm")
            out += [u.Quantity(1, "inch").to("cm").magnitude, u.Quantity(1, "foot").to("cm").magnitude, u.get_root_units("inch")[0]]
            with u.context("c12good"):
                out.append(u.Quantity(1, "foot").to("cm").magnitude)
                u_in = u.Quantity(1, "inch").to("cm").magnitude
            out += [u_in, u.Quantity(1, "foot").to("cm").magnitude]
            u.define("@alias inch = zoll12")
            out.append(u.Quantity(2, "zoll12").to("cm").magnitude)
            return [round(float(x), 9) if not isinstance(x, str) else x for x in out]
        try:
            logging.disable(logging.CRITICAL)
            ref, got = run(False), run(True)
            if got != ref:
                v.append(f"C12 activations that failed part-way left residue: the answers afterwards (incl. after define('inch = 3 cm')) are {got}, a registry "
                         f"that never saw the failed activations answers {ref}")
        except Exception as exc:  # noqa: BLE001
            v.append(f"C12 failed-then-define probe raised {type(exc).__name__}: {exc}")
        finally:
            logging.disable(logging.NOTSET)
        return v

    def colliding_rules_probe(self):
        """distinct contexts holding a rule for the same pair of dimensions: for every sequence of up to four activations /
        deactivations, with a conversion asked after EVERY step (so whatever the chain has built is in place), the answer is
        that of the most recently enabled active context that has the rule, and an error when none has"""
        import itertools
        import pint
        v = []
        try:
            u = regs.fresh("float")
            speeds = {"c12a": 2.0, "c12b": 5.0}
            for name, sp in speeds.items():
                cx = pint.Context(name)
                cx.add_transformation("[length]", "[time]", lambda ureg, x, sp=sp: x / ureg.Quantity(sp, "m/s"))
                u.add_context(cx)
            other = pint.Context("c12c")
            other.add_transformation("[mass]", "[time]", lambda ureg, x: x / ureg.Quantity(1.0, "kg/s"))
            u.add_context(other)
            q = u.Quantity(10.0, "m")
            for seq in itertools.product(("c12a", "c12b", "c12c", "pop"), repeat=4):
                stack = []
                hist = []
                for op in seq:
                    if op == "pop":
                        if not stack:
                            break
                        u.disable_contexts(1)
                        stack.pop()
                    else:
                        u.enable_contexts(op)
                        stack.append(op)
                    hist.append(op)
                    owner = next((n for n in reversed(stack) if n in speeds), None)
                    want = ("ok", 10.0 / speeds[owner]) if owner else ("err", "DimensionalityError")
                    try:
                        got = ("ok", round(q.to("s").magnitude, 9))
                    except Exception as exc:  # noqa: BLE001
                        got = ("err", type(exc).__name__)
                    if got != want:
                        v.append(f"C12 after {hist} (active, oldest first: {stack}) 10 m -> s gives {got}, the stack implies {want}")
                        break
                u.disable_contexts()
                if len(v) >= 4:
                    break
        except Exception as exc:  # noqa: BLE001
            v.append(f"C12 colliding-rules probe raised {type(exc).__name__}: {exc}")
        return v

    def oracle(self, c):
        import pint
        v = []
        if not getattr(self, "_shared_probe_done", False):
            self._shared_probe_done = True
            v += self.shared_context_probe()
            v += self.failing_activation_probe()
            v += self.colliding_rules_probe()
            v += self.failed_then_define_probe()
        u = self.runner().u
        logging.disable(logging.CRITICAL)
        added = []
        try:
            before = self.observe(u)
            specs = {}
            for cx in c["contexts"]:
                ctx = pint.Context.from_lines(c11.ctx_lines(cx), u.get_dimensionality, non_int_type=Fraction)
                u.add_context(ctx)
                added.append(ctx)
                specs[ctx.name] = (dict(ctx.defaults), list(ctx.funcs.keys()), list(ctx.redefinitions), ctx)
            stack = []       # names, most recent first
            tag = f"C12 scenario {c['uid']}"

            def names_now():
                return [x.name for x in u._active_ctx.contexts]

            def canon_name(n):
                for cx in c["contexts"]:
                    if n == cx["name"] or n in cx["aliases"]:
                        return cx["name"]
                return n
            for s in c["steps"]:
                if s["f"] == "enable":
                    obs0 = self.observe(u)
                    try:
                        u.enable_contexts(*s["names"])
                        if not s["ok"]:
                            v.append(f"{tag}: activation {s['names']} must fail but succeeded")
                        stack = [canon_name(n) for n in reversed(s["names"])] + stack
                    except Exception:  # noqa: BLE001
                        if s["ok"]:
                            v.append(f"{tag}: valid activation {s['names']} raised")
                        elif self.observe(u) != obs0:
                            v.append(f"{tag}: failed activation {s['names']} changed observable answers")
                elif s["f"] == "disable":
                    u.disable_contexts(s["n"])
                    stack = [] if s["n"] is None else stack[s["n"]:]
                elif s["f"] == "with":
                    obs0 = self.observe(u)
                    def body():
                        if names_now() != [canon_name(n) for n in reversed(s["names"])] + stack:
                            v.append(f"{tag}: inside with {s['names']} the stack is {names_now()}")
                        if s["raise"]:
                            raise Boom()
                    try:
                        if s.get("deco"):
                            u.with_context(s["names"][0])(body)()
                        else:
                            with u.context(*s["names"]):
                                body()
                    except Boom:
                        pass
                    except Exception:  # noqa: BLE001
                        if s["ok"]:
                            v.append(f"{tag}: with {s['names']} raised although the contexts are valid")
                    if self.observe(u) != obs0:
                        v.append(f"{tag}: after leaving with {s['names']} (raise={s['raise']}, ok={s['ok']}, decorator={bool(s.get('deco'))}) answers differ "
                                 f"from those before entry")
                if names_now() != stack:
                    v.append(f"{tag}: after step {s['f']} {s.get('names', '')} the active stack is {names_now()}, "
                             f"the operations imply {stack}")
            u.disable_contexts()
            if self.observe(u) != before:
                v.append(f"{tag}: after disabling everything the answers differ from those before the first activation")
            for name, (dflt, keys, redefs, ctx) in specs.items():
                if dict(ctx.defaults) != dflt or list(ctx.funcs.keys()) != keys or list(ctx.redefinitions) != redefs:
                    v.append(f"{tag}: context object {name} was modified by being activated")
        finally:
            try:
                u.disable_contexts()
            except Exception:  # noqa: BLE001
                pass
            for ctx in added:
                try:
                    u.remove_context(ctx.name)
                except Exception:  # noqa: BLE001
                    pass
            logging.disable(logging.NOTSET)
        return v
