"""C16 — NumPy functions on quantity arrays respect units."""
from __future__ import annotations

import json
import os
import random
import operator
import warnings
from fractions import Fraction

from . import regs
from .core import Property, capture, frac_s, canon, err_name, VERIF, BUILD

LEN = ["meter", "centimeter", "kilometer", "millimeter", "inch", "foot"]
TIME = ["second", "millisecond", "minute", "hour"]
ANG = ["radian", "degree", "milliradian"]
DLESS = ["dimensionless", "percent", "count"]
# not homogeneous in the unit of their argument by their very definition (rounding to integers / binary exponent / uninitialised)
NOT_COVARIANT = {"floor", "ceil", "rint", "trunc", "fix", "round", "around", "round_", "frexp", "modf", "empty_like", "nextafter",
                 "result_type", "spacing"}
# exact comparisons of floats: a tie can flip when both sides are converted separately (checked against NumPy on consistently
# converted magnitudes instead of under re-expression)
TIE_SENSITIVE = {"isin", "intersect1d", "equal", "not_equal", "greater_equal", "less_equal", "greater", "less", "searchsorted",
                 "argsort", "argmax", "argmin", "nanargmax", "nanargmin", "nonzero", "count_nonzero", "sign", "signbit", "copysign",
                 "allclose", "isclose"}
KNOWN = {"floor_divide": "[known finding F30]", "fmod": "[known finding F31]", "mod": "[known finding F31]", "remainder": "[known finding F31]"}
CUSTOM_CLASS = {"add": "keep_consistent", "subtract": "keep_consistent", "where": "where", "concatenate": "seq_keep", "stack": "seq_keep",
                "isin": "bare_consistent", "any": "bare", "all": "bare", "modf": "keep_tuple", "full_like": "full_like",
                "meshgrid": "meshgrid", "interp": "interp", "einsum": "einsum", "trapezoid": "trapz", "trapz": "trapz",
                "correlate": "mul", "pad": "pad", "unwrap": "unwrap", "copyto": "copyto", "power": "power", "frexp": "frexp",
                "prod": "prod", "nanprod": "prod"}
SPECIAL_CLASS = {"special:implement_atleast_nd": "keep_consistent", "special:implement_close": "close",
                 "special:implement_mul_func": "mul", "special:implement_single_dimensionless_argument_func": "fixed:>"}


def spec_table():
    rows = {}
    for line in open(os.path.join(VERIF, "spec", "numpy_implied.tsv"), encoding="utf-8"):
        if line.startswith("#") or not line.strip():
            continue
        k, n, c, live = line.rstrip("\n").split("\t")
        rows[(k, n)] = (c, live == "1")
    return rows


class Check(Property):
    ID = "C16"
    PROPS_FILE = "PintModel/Props/C16.lean"
    MODULE = "PintModel.Props.C16"
    RULE = ("every name of the regenerated behaviour tables that NumPy dispatches (≈155) and every hand-written implementation (21): "
            "random integer-valued float arrays of rank 0-3, per-argument units drawn from all compatible units of a family, optional "
            "arguments (axis, initial, where, atol, out ...), force_ndarray / force_ndarray_like registries; each call is compared with "
            "NumPy on magnitudes prepared by the *implied* policy and the implied unit, repeated with the inputs re-expressed in other "
            "compatible units, with incompatible units, with offset units; input arrays are snapshotted; non-trivial = distinct "
            "(name, shapes, units, options)")
    PARTIAL = ["dispatch (__array_ufunc__ / __array_function__), broadcasting and numerics are NumPy runtime: the theorems cover the unit "
               "bookkeeping tables and get_op_output_unit, the harness the observable results",
               "functions that round to integers or split off a binary exponent (floor, ceil, rint, trunc, fix, round, around, frexp, modf) "
               "are not functions of the physical value: compared with NumPy on the magnitudes, not under re-expression"]
    TRUSTED = ["spec/numpy_implied.tsv (hand-curated implied behaviour per NumPy name)"]

    # ------------------------------------------------------------------ generation
    def cases(self):
        rng = self.rng
        gen = json.load(open(os.path.join(BUILD, "gen.json")))["numpy_tables"]
        spec = spec_table()
        out = []
        reps = 5 if self.tier == "quick" else 60
        for k, n, i, o in gen["entries"]:
            c, live = spec.get((k, n), ("?", True))
            if not live:
                continue
            for r in range(reps):
                self.bump("table." + c.split(":")[0])
                ops = [{"op": "np", "f": "meaning", "input": i, "output": o}]
                out.append({"kind": k, "name": n, "cls": SPECIAL_CLASS.get(c, c), "policy": [i, o], "seed": rng.getrandbits(32), "ops": ops})
        for k, n, fn in gen["custom"]:
            for r in range(reps):
                self.bump("custom")
                out.append({"kind": k, "name": n, "cls": CUSTOM_CLASS.get(n, "smoke"), "policy": None, "seed": rng.getrandbits(32), "ops": []})
        for n in ("prod", "nanprod"):
            for r in range(reps):
                self.bump("custom")
                out.append({"kind": "function", "name": n, "cls": "prod", "policy": None, "seed": rng.getrandbits(32), "ops": []})
        # bare numbers given where a quantity is expected by the functions that bring their arguments to consistent units
        for r in range(12 if self.tier == "quick" else 200):
            self.bump("bare numbers in consistent-unit functions")
            out.append({"kind": "barenum", "name": "bare", "cls": "barenum", "seed": rng.getrandbits(32), "policy": None, "ops": []})
        # get_op_output_unit against the model
        fams = [LEN, TIME, ["kelvin", "degree_Celsius", "degree_Fahrenheit"], ["gram", "kilogram"]]
        for _ in range(150 if self.tier == "quick" else 3000):
            op = rng.choice(["sum", "mul", "delta", "delta,div", "div", "invdiv", "variance", "square", "sqrt", "reciprocal", "size"])
            first = rng.choice(rng.choice(fams))
            args = [[[first, "1/1"]]] + [([[rng.choice(rng.choice(fams)), "1/1"]] if rng.random() < 0.8 else None) for _ in range(rng.randint(0, 2))]
            if rng.random() < 0.25:
                args = [None] + args          # a bare first argument: the "first input units" are those of the first QUANTITY
            o_ = {"op": "np", "f": "unit", "uop": op, "first": [[first, "1/1"]], "args": args}
            if op == "size":
                o_["size"] = frac_s(rng.randint(1, 4))
            self.bump("get_op_output_unit." + op)
            out.append({"kind": "opunit", "name": op, "first": first, "args": args, "size": o_.get("size"), "seed": 0, "cls": "opunit",
                        "ops": [o_]})
        return out

    # ------------------------------------------------------------------ building a call
    def family(self, name, cls):
        if cls.startswith("fixed:"):
            a = cls[6:].split(">")[0]
            if a == "radian":
                return ANG
            if a == "degree":
                return ANG
            return DLESS
        if name in ("arctan2",):
            return LEN
        if name == "unwrap":
            return ANG
        if name in ("cumprod", "nancumprod"):
            return DLESS
        return LEN

    def build(self, c, variant=0):
        """-> (numpy function, args, kwargs) with Quantity arguments; variant 0 = as generated, 1 = inputs re-expressed in other
        compatible units, 2 = second quantity argument in an incompatible unit"""
        import numpy as np
        u = self.ureg(c)
        Q = u.Quantity
        rng = random.Random(c["seed"])
        name, cls = c["name"], c["cls"]
        f = np
        for p in name.split("."):
            f = getattr(f, p, None)
        fam = self.family(name, cls)
        rank = rng.choice([0, 1, 1, 2, 2, 3])
        shape = tuple(rng.randint(2, 3) for _ in range(rank))
        if name in ("diagonal", "trace", "swapaxes", "transpose", "rot90", "matmul", "dot", "linalg.solve", "moveaxis", "rollaxis", "flip",
                    "block", "hstack", "vstack", "dstack", "column_stack", "einsum", "cross", "tile", "pad", "gradient", "diff",
                    "ediff1d", "trim_zeros", "sort", "searchsorted", "intersect1d", "insert", "delete", "append", "interp",
                    "correlate", "percentile", "nanpercentile", "quantile", "nanquantile", "median", "nanmedian", "unwrap",
                    "lib.stride_tricks.sliding_window_view", "compress", "trapezoid", "trapz", "linspace", "meshgrid", "cumsum",
                    "nancumsum", "cumprod", "nancumprod", "roll", "resize", "reshape", "squeeze", "expand_dims", "broadcast_to",
                    "concatenate", "stack", "atleast_1d", "atleast_2d", "atleast_3d", "repeat", "take", "argsort", "nonzero",
                    "copyto", "where", "isin", "full_like", "clip", "linalg.norm", "std", "nanstd", "var", "nanvar", "ptp", "average"):
            shape = (3, 3) if name in ("matmul", "dot", "linalg.solve", "diagonal", "trace", "swapaxes", "transpose", "rot90", "moveaxis",
                                       "rollaxis", "einsum", "block", "tile", "pad") else (4,)
            if name == "cross":
                shape = (3,)
        small = cls.startswith("fixed:") or name in ("arctan2", "unwrap", "cumprod", "nancumprod")

        def arr():
            if not shape:
                v = float(rng.randint(1, 9))
                return np.float64(v / 8 if small else v)
            a = np.array([float(rng.randint(1, 9)) for _ in range(int(np.prod(shape)))]).reshape(shape)
            if name == "linalg.solve":
                a = a + 10 * np.eye(3)
            return a / 8 if small else a
        # every random decision is drawn here, in a fixed order, so that the three variants differ in the units only
        ua = rng.choice(fam)
        ub = rng.choice(fam)
        uc = rng.choice(fam)
        va, vb, vc = arr(), arr(), arr()
        alt = (rng.choice([x for x in fam if x != ua] or fam), rng.choice(fam), rng.choice(fam))
        idx = rng.randint(0, 2)
        use_axis = rng.random() < 0.5
        pos_axis = rng.random() < 0.5          # the axis given positionally instead of by keyword
        a, b, cq = Q(va, ua), Q(vb, ub), Q(vc, uc)
        if variant == 1:
            a, b, cq = a.to(alt[0]), b.to(alt[1]), cq.to(alt[2])
        if variant == 2:
            b = Q(b.magnitude, "second" if fam is not TIME else "meter")
        kw = {}
        T = {
            "clip": lambda: ((a, Q(2.0, ub) if variant != 2 else Q(2.0, "second"), cq.to(ub).max() if variant != 2 else cq.max()), {}),
            "where": lambda: ((va > 4, a, b), {}),
            # sample points 3.5..7.5 (the values are the integers 1..9: no ties at a sample point): what lies outside takes the fill value given for that side
            "interp": lambda: ((a, Q(np.array([3.5, 5.5, 6.5, 7.5]), ua).to(ub) if variant != 2 else Q(np.array([3.5, 5.5, 6.5, 7.5]), "second"),
                                Q(np.array([1.0, 2.0, 4.0, 8.0]), "second")),
                               {"left": Q(-100.0, "second"), "right": Q(0.25, "minute")} if variant != 2 and idx != 0 else {}),
            "linspace": lambda: ((Q(1.0, ua), Q(9.0, ua).to(ub) if variant != 2 else Q(9.0, "second"), 5), {}),
            "append": lambda: ((a, b), {}), "insert": lambda: ((a, 1, b), {}), "delete": lambda: ((a, 1), {}),
            "searchsorted": lambda: ((np.sort(a), b), {}),
            "percentile": lambda: ((a, 50), {}), "nanpercentile": lambda: ((a, 50), {}), "quantile": lambda: ((a, 0.5), {}),
            "nanquantile": lambda: ((a, 0.5), {}), "take": lambda: ((a, [0, 1]), {}), "repeat": lambda: ((a, 2), {}),
            "reshape": lambda: ((a, (2, 2)), {}), "resize": lambda: ((a, (2, 3)), {}), "roll": lambda: ((a, 1), {}),
            "swapaxes": lambda: ((a, 0, 1), {}), "moveaxis": lambda: ((a, 0, 1), {}), "rollaxis": lambda: ((a, 1), {}),
            "expand_dims": lambda: ((a, 0), {}), "broadcast_to": lambda: ((a, (2, 4)), {}), "tile": lambda: ((a, 2), {}),
            "compress": lambda: (([True, False, True, True], a), {}), "ldexp": lambda: ((a, np.array(2)), {}),
            "full_like": lambda: ((a, Q(3.0, ub).to(b.units) if variant != 2 else Q(3.0, "second")), {}), "pad": lambda: ((a, 1), {"constant_values": Q(2.0, ua).to(ub) if variant != 2 else Q(2.0, "second")}),
            "einsum": lambda: (("ij,jk->ik", a, b), {}), "copyto": lambda: ((Q(a.magnitude.copy(), a.units), b), {}),
            "meshgrid": lambda: ((a, Q(np.array([1.0, 2.0]), "second")), {}),
            "concatenate": lambda: (([a, b],), {}), "stack": lambda: (([a, b],), {}), "block": lambda: (([a, b],), {}),
            "hstack": lambda: (([a, b],), {}), "vstack": lambda: (([a, b],), {}), "dstack": lambda: (([a, b],), {}),
            "column_stack": lambda: (([a, b],), {}), "broadcast_arrays": lambda: ((a, b), {}),
            "gradient": lambda: ((a, Q(2.0, "second")), {}), "trapezoid": lambda: ((a,), {"dx": Q(2.0, "second")}),
            "trapz": lambda: ((a,), {"dx": Q(2.0, "second")}), "linalg.solve": lambda: ((a, Q(b.magnitude[:, 0], b.units)), {}),
            "isclose": lambda: ((a, b), {"atol": 0.5} if idx == 0 else ({"atol": Q(0.5, ua)} if idx == 1 else {})),
            "allclose": lambda: ((a, b), {"atol": 0.5} if idx == 0 else {}),
            "amax": lambda: ((a,), {"initial": Q(2.0, ua).to(ub) if variant != 2 else Q(2.0, "second")} if idx else {}),
            "amin": lambda: ((a,), {"initial": Q(2.0, ua).to(ub) if variant != 2 else Q(2.0, "second")} if idx else {}),
            "max": lambda: ((a,), {"initial": Q(2.0, ua).to(ub) if variant != 2 else Q(2.0, "second")} if idx else {}),
            "min": lambda: ((a,), {"initial": Q(2.0, ua).to(ub) if variant != 2 else Q(2.0, "second")} if idx else {}),
            "nan_to_num": lambda: ((a,), {"nan": Q(1.0, ub) if variant != 2 else Q(1.0, "second")} if idx else {}),
            "lib.stride_tricks.sliding_window_view": lambda: ((a, 2), {}), "around": lambda: ((a, 1), {}), "round": lambda: ((a, 1), {}),
            "power": lambda: ((a, 2), {}), "average": lambda: ((a,), {"weights": np.arange(1, a.size + 1, dtype=float).reshape(a.shape)} if idx else {}),
            "unwrap": lambda: ((a,), {}), "correlate": lambda: ((a, b), {}), "isin": lambda: ((a, b), {}),
            "trim_zeros": lambda: ((Q(np.array([0.0, 1.0, 2.0, 0.0]), ua),), {}),
        }
        if name in T:
            args, kw = T[name]()
        else:
            import inspect
            nin = getattr(f, "nin", None)
            if nin is None:
                try:
                    params = [p for p in inspect.signature(f).parameters.values() if p.default is p.empty and p.kind in (p.POSITIONAL_ONLY, p.POSITIONAL_OR_KEYWORD)]
                    nin = len(params)
                except (TypeError, ValueError):
                    nin = 1
            args = (a,) if nin <= 1 else (a, b)
            if nin <= 1 and shape and name in ("sum", "nansum", "std", "nanstd", "var", "nanvar", "mean", "nanmean", "max", "min", "prod",
                                              "nanprod", "cumsum", "nancumsum", "median", "ptp", "argmax", "argmin", "sort", "all", "any"):
                if use_axis and pos_axis:
                    args = (a, 0)
                elif use_axis:
                    kw = {"axis": 0}
        return f, args, kw

    def ureg(self, c):
        r = random.Random(c["seed"] ^ 0x55)
        opt = r.choice([{}, {}, {"force_ndarray": True}, {"force_ndarray_like": True}])
        return regs.ureg("float", **opt)

    # ------------------------------------------------------------------ implementation side of the correspondence
    def impl(self, c):
        if c["kind"] == "opunit":
            from pint.facets.numpy.numpy_func import get_op_output_unit
            u = regs.ureg("float")

            def run():
                first = u.Unit(c["first"])
                args = [u.Quantity(1.0, x[0][0]) if x is not None else 2.0 for x in c["args"]]
                r = get_op_output_unit(c["name"], first, tuple(args), size=int(Fraction(c["size"])) if c["size"] else None)
                return sorted([k, frac_s(Fraction(v).limit_denominator(1000))] for k, v in r._units.items())
            return [capture(run)]
        if not c["ops"]:
            return []
        # the observed behaviour class of the registration, from the generated policy text
        i, o = c["policy"]
        return [{"ok": self.observed_meaning(i, o)}]

    @staticmethod
    def observed_meaning(i, o):
        """the vocabulary of the spec, computed independently of the Lean `meaning`"""
        if i == "none" and o == "none":
            return "bare"
        if i == "consistent" and o == "none":
            return "bare_consistent"
        if i == "consistent" and o == "match":
            return "keep_consistent"
        if i == "none" and o == "match":
            return "keep_first"
        if i == "none" and o.startswith("op:"):
            return o[3:]
        if i.startswith("unit:") and o.startswith("unit:"):
            return f"fixed:{i[5:]}>{o[5:]}"
        if i == "consistent" and o.startswith("unit:"):
            return f"consistent>{o[5:]}"
        if i.startswith("args:"):
            return ("keep_args:" if o == "match" else "bare_args:") + i[5:]
        if i.startswith("special:"):
            return i
        return "?" + i + "|" + o

    def same(self, c, io, mo):
        if not mo:
            return True
        if c["kind"] == "opunit":
            i, m = io[0], mo[0]
            if "err" in i and "err" in m:
                return i["err"].split(":")[-1] == m["err"]
            if "ok" in i and "ok" in m:
                return canon(sorted([k, frac_s(Fraction(v).limit_denominator(1000))] for k, v in m["ok"])) == canon(i["ok"])
            return False
        return canon(io) == canon(mo)

    def nontrivial(self, c, io):
        return f"{c['kind']}:{c['name']}:{c['seed']}"

    # ------------------------------------------------------------------ oracle
    def strip(self, x, conv):
        if isinstance(x, (list, tuple)):
            return type(x)(self.strip(y, conv) for y in x)
        if hasattr(x, "_units") and hasattr(x, "_magnitude"):
            return conv(x)
        return x

    def phys(self, r):
        import numpy as np
        if isinstance(r, (tuple, list)):
            return [self.phys(x) for x in r]
        if hasattr(r, "to_root_units"):
            rr = r.to_root_units()
            return ("q", np.asarray(rr.magnitude, dtype=float), str(rr.units))
        return ("bare", np.asarray(r))

    def close(self, p1, p2):
        import numpy as np
        if isinstance(p1, list):
            return isinstance(p2, list) and len(p1) == len(p2) and all(self.close(a, b) for a, b in zip(p1, p2))
        if isinstance(p2, list) or p1[0] != p2[0]:
            return False
        try:
            ok = np.shape(p1[1]) == np.shape(p2[1]) and np.allclose(np.asarray(p1[1], dtype=float), np.asarray(p2[1], dtype=float),
                                                                  rtol=1e-9, atol=1e-12, equal_nan=True)
        except (TypeError, ValueError):
            ok = str(p1[1]) == str(p2[1])
        return bool(ok) and (p1[0] == "bare" or p1[2] == p2[2])

    def oracle_barenum(self, c):
        """a bare number is a dimensionless quantity: with a dimensional array it is refused (DimensionalityError), with a
        dimensionless array in a scaled unit (percent) it is converted like Quantity(number, 'dimensionless')"""
        import numpy as np
        v = []
        u = regs.ureg("float")
        rng = random.Random(c["seed"])
        vals = np.array([float(rng.randint(1, 9)) for _ in range(4)])
        lo, hi = float(rng.randint(1, 3)), float(rng.randint(5, 8))
        qd = u.Quantity(vals, rng.choice(LEN))
        qp = u.Quantity(vals * 50.0, "percent")
        D = lambda x: u.Quantity(x, "dimensionless")  # noqa: E731
        calls = [("clip", lambda q, w: np.clip(q, w(lo / 2), w(hi / 2))), ("append", lambda q, w: np.append(q, w(np.array([lo])))),
                 ("insert", lambda q, w: np.insert(q, 1, w(lo))), ("max(initial)", lambda q, w: np.max(q, initial=w(hi * 10))),
                 ("searchsorted", lambda q, w: np.searchsorted(np.sort(q), w(lo))), ("linspace", lambda q, w: np.linspace(q[0], w(hi), 3)),
                 ("where", lambda q, w: np.where(q.magnitude > 4, q, w(lo))),
                 ("isclose", lambda q, w: np.isclose(q, w(lo))), ("concatenate", lambda q, w: np.concatenate([q, w(np.array([lo]))]))]
        ident = lambda x: x  # noqa: E731
        with warnings.catch_warnings():
            warnings.simplefilter("ignore")
            for name, fn in calls:
                tag = f"C16 np.{name} with a bare number (seed {c['seed']})"
                # (i) dimensional array, bare number: the answer of the same call with an explicit dimensionless quantity
                def outcome(q, w):
                    try:
                        return ("ok", fn(q, w))
                    except Exception as exc:  # noqa: BLE001
                        return ("err", type(exc).__name__)
                for q, label in ((qd, "a dimensional array"), (qp, "a percent array")):
                    got, ref = outcome(q, ident), outcome(q, D)
                    if got[0] != ref[0] or (got[0] == "err" and got[1] != ref[1]):
                        v.append(f"{tag}, {label} {q!r}: bare {got[1] if got[0] == 'err' else repr(got[1])}, with Quantity(x, 'dimensionless') "
                                 f"{ref[1] if ref[0] == 'err' else repr(ref[1])}")
                    elif got[0] == "ok":
                        a_, b_ = got[1], ref[1]
                        ua, ub = getattr(a_, "units", None), getattr(b_, "units", None)
                        same = (ua is None) == (ub is None) and np.allclose(np.asarray(getattr(a_, "magnitude", a_), dtype=float),
                                                                          np.asarray(b_.to(ua).magnitude if ua is not None else b_, dtype=float), rtol=1e-12)
                        if not same:
                            v.append(f"{tag}, {label} {q!r}: bare number gives {a_!r}, Quantity(x, 'dimensionless') gives {b_!r}")
        return v

    def known_probes(self):
        """run once per check: behaviours that were met on the unmodified code, shown on the real code here and recorded as
        known findings (each line carries its tag)"""
        import numpy as np
        import pint
        v = []
        u = regs.fresh("float")
        q = u.Quantity(np.array([1.0, 2.0, 3.0]), "meter")
        with warnings.catch_warnings():
            warnings.simplefilter("ignore")
            try:
                r = np.sum(q, initial=u.Quantity(100.0, "centimeter"))
                if not np.isclose(r.to("meter").magnitude, 7.0):
                    v.append(f"C16 [known finding F53] np.sum([1, 2, 3] m, initial=100 cm) = {r!r}; NumPy on consistent magnitudes gives 7 m")
                r = np.diff(q, prepend=u.Quantity(50.0, "centimeter"))
                if not np.allclose(r.to("meter").magnitude, [0.5, 1.0, 1.0]):
                    v.append(f"C16 [known finding F53] np.diff([1, 2, 3] m, prepend=50 cm) = {r!r}; NumPy on consistent magnitudes gives [0.5, 1, 1] m")
            except Exception as exc:  # noqa: BLE001
                v.append(f"C16 probe sum/diff raised {type(exc).__name__}: {exc}")
            try:
                # a bare coefficient matrix: the solution carries the unit of the right-hand side and A @ x reproduces it
                A_ = np.array([[2.0, 1.0], [0.0, 4.0]])
                for b_ in (u.Quantity(np.array([3.0, 8.0]), "second"), u.Quantity(np.array([3000.0, 8000.0]), "millisecond")):
                    x_ = np.linalg.solve(A_, b_)
                    if not hasattr(x_, "units") or x_.units != b_.units or not np.allclose((A_ @ x_.magnitude), b_.magnitude):
                        v.append(f"C16 np.linalg.solve(bare matrix, {b_!r}) = {x_!r}: A @ x does not reproduce the right-hand side with its unit")
            except Exception as exc:  # noqa: BLE001
                v.append(f"C16 probe linalg.solve raised {type(exc).__name__}: {exc}")
            try:
                p = u.Quantity(np.array([50.0, 50.0]), "percent")
                p.cumprod()
                if str(p.units) != "percent" or list(p.magnitude) != [50.0, 50.0]:
                    v.append(f"C16 [known finding F54] Quantity([50, 50] percent).cumprod() left its receiver as {p!r} (inputs are never modified)")
            except Exception as exc:  # noqa: BLE001
                v.append(f"C16 probe cumprod raised {type(exc).__name__}: {exc}")
            try:
                r = np.add(u.Quantity(np.array([10.0]), "degC"), u.Quantity(np.array([50.0]), "degF"))
                v.append(f"C16 [known finding F56] np.add([10] degC, [50] degF) = {r!r}; the + operator refuses it (OffsetUnitCalculusError)")
            except pint.errors.OffsetUnitCalculusError:
                pass
            except Exception as exc:  # noqa: BLE001
                v.append(f"C16 probe np.add on offset units raised {type(exc).__name__}: {exc}")
            # NumPy on the magnitudes with the implied unit (F77 - F79): reflected matrix product, searchsorted with a sorter,
            # np.isin with bare / incompatible / mixed test elements and invert
            try:
                L = [[1.0, 2.0], [3.0, 4.0]]
                M = u.Quantity(np.array([[0.0, 1.0], [0.0, 0.0]]), "meter")
                for lbl, left in (("list", L), ("ndarray", np.array(L))):
                    r = left @ M
                    if not hasattr(r, "units") or str(r.units) != "meter" or not np.array_equal(r.magnitude, np.array(L) @ M.magnitude):
                        v.append(f"C16 {lbl} @ Quantity: {L} @ {M.magnitude.tolist()} m = {r!r}; NumPy on the magnitudes gives "
                                 f"{(np.array(L) @ M.magnitude).tolist()} m")
                s_ = u.Quantity(np.array([3.0, 1.0, 2.0]), "meter")
                for val in (u.Quantity(2.5, "meter"), u.Quantity(150.0, "centimeter")):
                    got = s_.searchsorted(val, sorter=[1, 2, 0])
                    want = np.searchsorted(s_.magnitude, val.to("meter").magnitude, sorter=[1, 2, 0])
                    if got != want:
                        v.append(f"C16 Quantity([3, 1, 2] m).searchsorted({val!r}, sorter=[1, 2, 0]) = {got}; NumPy on the magnitudes gives {want}")
                pc = u.Quantity(np.array([1.0, 50.0]), "percent")
                m2 = u.Quantity(np.array([1.0, 2.0]), "meter")
                for lbl, fn, want in (
                        ("np.isin([1, 50] percent, [0.5])", lambda: np.isin(pc, [0.5]), [False, True]),
                        ("np.isin([1, 50] percent, [0.5], invert=True)", lambda: np.isin(pc, [0.5], invert=True), [True, False]),
                        ("np.isin([1, 2] m, [1] s, invert=True)", lambda: np.isin(m2, u.Quantity(np.array([1.0]), "second"), invert=True), [True, True]),
                        ("np.isin([1, 2] m, [1.0], invert=True)", lambda: np.isin(m2, [1.0], invert=True), [True, True]),
                        ("np.isin([1, 2] m, [100 cm, 2, 1 s])", lambda: np.isin(m2, [u.Quantity(100.0, "centimeter"), 2, u.Quantity(1.0, "second")]), [True, False])):
                    try:
                        got = np.asarray(fn()).tolist()
                    except Exception as exc:  # noqa: BLE001
                        got = type(exc).__name__
                    if got != want:
                        known = " [known finding F80]" if "percent" in lbl else ""
                        v.append(f"C16 {lbl} = {got}; membership on consistent magnitudes gives {want}{known}")
            except Exception as exc:  # noqa: BLE001
                v.append(f"C16 probe matmul/searchsorted/isin raised {type(exc).__name__}: {exc}")
            # products of arrays (np.dot, np.cross, np.inner, np.outer, Quantity.dot, @): unchanged when an operand is re-expressed,
            # in either operand position - also for an offset unit in autoconvert mode (where the product goes through base units)
            try:
                for auto in (False, True):
                    r = regs.fresh("float", autoconvert_offset_to_baseunit=auto)
                    z = r.Quantity(np.array([1.0, 2.0, 3.0]), "meter")
                    for t, t_alt in ((r.Quantity(np.array([0.0, 5.0, 10.0]), "degC"), r.Quantity(np.array([273.15, 278.15, 283.15]), "kelvin")),
                                     (r.Quantity(np.array([100.0, 200.0, 300.0]), "centimeter"), r.Quantity(np.array([1.0, 2.0, 3.0]), "meter"))):
                        for name, fn in (("np.dot", np.dot), ("np.cross", np.cross), ("np.inner", np.inner), ("np.outer", np.outer),
                                         ("Quantity.dot", lambda a, b: a.dot(b)), ("@", lambda a, b: a @ b)):
                            for pos, (a1, b1), (a2, b2) in (("second", (z, t), (z, t_alt)), ("first", (t, z), (t_alt, z))):
                                def ev(a, b):
                                    try:
                                        q = fn(a, b).to_root_units()
                                        return ("ok", np.round(np.asarray(q.magnitude, dtype=float), 6).tolist(), str(q.units))
                                    except Exception as exc:  # noqa: BLE001
                                        return ("err", type(exc).__name__)
                                g1, g2 = ev(a1, b1), ev(a2, b2)
                                offs = "degree_Celsius" in str(t.units)
                                if offs and not auto:
                                    if g1[0] == "ok":
                                        v.append(f"C16 {name} with a degC array as {pos} operand (no autoconvert) returned {g1} (offset units are refused in products)")
                                elif g1 != g2:
                                    known = " [known finding F56] (np.matmul is a ufunc: it multiplies the raw magnitudes)" if (offs and name == "@") else ""
                                    v.append(f"C16 {name}, {pos} operand {t.units} (autoconvert={auto}): {g1}; with the operand re-expressed in {t_alt.units}: {g2}{known}")
            except Exception as exc:  # noqa: BLE001
                v.append(f"C16 probe array products raised {type(exc).__name__}: {exc}")
            # the variance of temperatures on an offset scale has no unit (degC ** 2 relates to nothing): refused, for every axis /
            # ddof form and its nan-variant; on delta and absolute scales it is the square of the unit and follows re-expression
            try:
                r = regs.fresh("float")
                tc = r.Quantity(np.array([[10.0, 20.0, 40.0], [5.0, np.nan, 15.0]]), "degC")
                for name, fn in (("np.var", lambda q: np.var(q[0])), ("np.var(axis=0)", lambda q: np.var(q[:, ::2], axis=0)),
                                 ("np.var(ddof=1)", lambda q: np.var(q[0], ddof=1)), ("np.nanvar", lambda q: np.nanvar(q))):
                    for un in ("degC", "degF"):
                        try:
                            res = fn(tc.to(un))
                            v.append(f"C16 {name} of temperatures in {un} returned {res!r} (offset units are refused where the operation is ambiguous)")
                        except pint.errors.OffsetUnitCalculusError:
                            pass
                    a_, b_ = fn(tc.to("kelvin")), fn(tc.to("degree_Rankine"))
                    if str(a_.units) != "kelvin ** 2" or not np.allclose(a_.magnitude, b_.to("kelvin ** 2").magnitude, rtol=1e-9, equal_nan=True):
                        v.append(f"C16 {name} of the same temperatures in kelvin {a_!r} and in degree_Rankine {b_!r}")
            except Exception as exc:  # noqa: BLE001
                v.append(f"C16 probe variance raised {type(exc).__name__}: {exc}")
            # item assignment: the stored number is the assigned quantity converted to the array's unit (what the scalar conversion
            # gives), a wrongly dimensioned value is refused - zero and NaN valued quantities included
            try:
                r = regs.fresh("float")
                for arr_unit, val, val_unit in (("meter", 50.0, "centimeter"), ("meter", 0.0, "second"), ("meter", 0.0, "joule"), ("meter", float("nan"), "second"),
                                                ("meter", 0.0, "kilometer"), ("kelvin", 0.0, "degC"), ("degC", 0.0, "kelvin"), ("degF", 0.0, "degC"),
                                                ("kelvin", 5.0, "degree_Rankine"), ("meter", 3.0, "second")):
                    q = r.Quantity(np.array([10.0, 20.0, 30.0]), arr_unit)
                    item = r.Quantity(val, val_unit)
                    try:
                        want = ("ok", item.to(arr_unit).magnitude)
                    except Exception as exc:  # noqa: BLE001
                        want = ("err", type(exc).__name__)
                    try:
                        q[0] = item
                        got = ("ok", float(q.magnitude[0]))
                    except Exception as exc:  # noqa: BLE001
                        got = ("err", type(exc).__name__)
                    same = got == want or (got[0] == want[0] == "ok" and (np.isclose(got[1], want[1], rtol=1e-12) or (np.isnan(got[1]) and np.isnan(want[1]))))
                    if not same and not (got[0] == "err" and want[0] == "ok"):      # (a refusal where the scalar converts is not a wrong number)
                        v.append(f"C16 array in {arr_unit}: a[0] = {val} {val_unit} stores {got}; the scalar conversion gives {want}")
            except Exception as exc:  # noqa: BLE001
                v.append(f"C16 probe item assignment raised {type(exc).__name__}: {exc}")
            # powers whose exponent is itself a quantity in a SCALED dimensionless unit (percent, ppm, km / m, degree is an angle and
            # not used here): the exponent is the pure number it stands for - scalar and array exponents, operator and np.power,
            # plain, reflected and in-place forms
            try:
                for r in (regs.fresh("float"), regs.fresh("float", force_ndarray_like=True)):
                    for base in (np.array([2.0, 3.0]), 2.0):
                        for ex_m, ex_u, pure in ((np.array([100.0, 200.0]), "percent", np.array([1.0, 2.0])), (200.0, "percent", 2.0),
                                                 (np.array([3000.0, 1000.0]), "meter / kilometer", np.array([3.0, 1.0])),
                                                 (np.array([2.0, 3.0]), "dimensionless", np.array([2.0, 3.0]))):
                            want = np.power(base, pure)
                            for name, fn in (("q1 ** q2", lambda a, b: a ** b), ("np.power(q1, q2)", lambda a, b: np.power(a, b)),
                                             ("base ** q2", lambda a, b: a.magnitude ** b), ("q1 **= q2", operator.ipow)):
                                a, b = r.Quantity(np.array(base, dtype=float) if name == "q1 **= q2" else base, ""), r.Quantity(ex_m, ex_u)
                                try:
                                    res = fn(a, b)
                                    got = np.asarray(res.to("").magnitude if hasattr(res, "to") else res, dtype=float)
                                except Exception:  # noqa: BLE001
                                    continue        # a refusal is not a wrong number
                                if got.shape != np.asarray(want).shape and got.size != np.asarray(want).size:
                                    continue
                                if not np.allclose(got.reshape(np.asarray(want).shape), want, rtol=1e-9):
                                    v.append(f"C16 {name} with q1 = {base} (dimensionless) and q2 = {ex_m} {ex_u} gives {got.tolist()}; the exponent stands "
                                             f"for {np.asarray(pure).tolist()}, so NumPy on consistent magnitudes gives {np.asarray(want).tolist()}")
            except Exception as exc:  # noqa: BLE001
                v.append(f"C16 probe quantity exponents raised {type(exc).__name__}: {exc}")
        return v

    def oracle(self, c):
        import numpy as np
        if not getattr(self, "_known_done", False):
            self._known_done = True
            kv = self.known_probes()
            if kv:
                return kv
        if c["kind"] == "barenum":
            return self.oracle_barenum(c)
        if c["kind"] == "opunit":
            return []
        v = []
        name, cls = c["name"], c["cls"]
        known = KNOWN.get(name, "") if c["kind"] == "ufunc" else ""
        tag = f"C16 np.{name} (seed {c['seed']})"
        with warnings.catch_warnings():
            warnings.simplefilter("ignore")
            try:
                f, args, kw = self.build(c, 0)
            except Exception as exc:  # noqa: BLE001
                return [f"{tag}: building the call raised {type(exc).__name__}: {exc}"]
            if f is None:
                return v
            quantities = [x for x in self.flat(args) + self.flat(list(kw.values())) if hasattr(x, "_units")]
            snap = [(np.array(x.magnitude, copy=True), x.units) for x in quantities]
            try:
                r = f(*args, **kw)
            except Exception as exc:  # noqa: BLE001
                r = exc
            desc = f"{tag}({', '.join(self.show(x) for x in args)}{', ' if kw else ''}{', '.join(k + '=' + self.show(x) for k, x in kw.items())})"
            if isinstance(r, Exception):
                if cls in ("smoke",):
                    return v
                return [f"{desc} raised {type(r).__name__}: {str(r)[:160]}"]
            # inputs untouched (copyto writes into its first argument by definition)
            if name != "copyto":
                for (m0, u0), x in zip(snap, quantities):
                    if x.units != u0 or not np.array_equal(np.asarray(x.magnitude), m0, equal_nan=True):
                        v.append(f"{desc} modified an input array")
            if name == "copyto":
                dst, src = args[0], args[1]
                want_m = src.to(dst.units).magnitude
                if not np.allclose(np.asarray(dst.magnitude, dtype=float), np.broadcast_to(want_m, np.shape(dst.magnitude)), rtol=1e-9):
                    v.append(f"{desc}: the destination holds {self.show(dst)}, the source is {self.show(src)}")
                if not np.array_equal(np.asarray(src.magnitude), snap[1][0]):
                    v.append(f"{desc} modified its source")
            # NumPy on magnitudes prepared by the implied policy, with the implied unit
            exp = self.expected(c, f, args, kw, quantities)
            if exp is not None and name != "empty_like":         # uninitialised memory: nothing to compare
                em, eu = exp
                got = self.phys(r)
                u = self.ureg(c)
                want = self.phys(self.wrap(u, em, eu))
                if not self.close(got, want):
                    v.append(f"{desc} = {self.show(r)}; NumPy on the magnitudes with the implied unit ({cls}) gives {self.show(self.wrap(u, em, eu))} {known}".strip())
            # unchanged under re-expression of the inputs
            bare_tol = name in ("isclose", "allclose") and "atol" in kw and not hasattr(kw["atol"], "_units")   # read in a's units by design
            if name not in NOT_COVARIANT and name not in TIE_SENSITIVE and cls not in ("smoke", "copyto") and not bare_tol:
                try:
                    f2, args2, kw2 = self.build(c, 1)
                    r2 = f2(*args2, **kw2)
                    if not self.close(self.phys(r), self.phys(r2)):
                        v.append(f"{desc} = {self.show(r)} but {self.show(r2)} with the inputs re-expressed as "
                                 f"({', '.join(self.show(x) for x in args2)}) {known}".strip())
                except Exception as exc:  # noqa: BLE001
                    v.append(f"{desc} returns but raises {type(exc).__name__} with the inputs re-expressed in compatible units {known}".strip())
            # incompatible second operand
            if name == "isin":
                pass
            elif cls in ("keep_consistent", "bare_consistent", "consistent>radian", "close", "seq_keep", "where") or cls.startswith("keep_args:a,") \
                    or name in ("add", "subtract", "clip", "append", "insert", "searchsorted", "linspace", "intersect1d"):      # isin: an element in incompatible units is "not in", by design
                try:
                    f3, args3, kw3 = self.build(c, 2)
                    q3 = [x for x in self.flat(args3) + self.flat(list(kw3.values())) if hasattr(x, "_units")]
                    if len({str(x.dimensionality) for x in q3}) > 1:
                        try:
                            r3 = f3(*args3, **kw3)
                            v.append(f"{tag}: operands of different dimensionality ({', '.join(self.show(x) for x in args3)}) returned {self.show(r3)} {known}".strip())
                        except Exception as exc:  # noqa: BLE001
                            if type(exc).__name__ != "DimensionalityError":
                                v.append(f"{tag}: operands of different dimensionality raised {type(exc).__name__}, not DimensionalityError")
                except Exception:  # noqa: BLE001
                    pass
        return v

    @staticmethod
    def flat(xs):
        out = []
        for x in xs:
            if isinstance(x, (list, tuple)):
                out += Check.flat(x)
            else:
                out.append(x)
        return out

    @staticmethod
    def show(x):
        s = repr(x) if not isinstance(x, (list, tuple)) else "[" + ", ".join(Check.show(y) for y in x) + "]"
        return " ".join(s.split())[:160]

    def wrap(self, u, m, unit):
        if isinstance(m, (tuple, list)) and isinstance(unit, (tuple, list)):
            return [self.wrap(u, a, b) for a, b in zip(m, unit)]
        return m if unit is None else u.Quantity(m, unit)

    def expected(self, c, f, args, kw, qs):
        """(NumPy result on magnitudes prepared by the implied policy, implied unit) or None when the class has no simple oracle"""
        import numpy as np
        cls, name = c["cls"], c["name"]
        if not qs:
            return None
        first = qs[0].units
        raw = lambda q: q.magnitude                       # noqa: E731
        cons = lambda q: q.to(first).magnitude            # noqa: E731

        def call(conv):
            return f(*self.strip(args, conv), **{k: self.strip(x, conv) for k, x in kw.items()})
        try:
            if cls == "bare":
                return call(raw), None
            if cls in ("bare_consistent", "close") or cls.startswith("bare_args:"):
                return call(cons), None
            if cls in ("keep_consistent", "seq_keep", "where", "pad") or cls.startswith("keep_args:"):
                return call(cons), first
            if cls == "keep_tuple":
                r = call(cons)
                return list(r), [first] * len(r)
            if cls == "keep_first":
                return call(raw), first
            if cls == "consistent_ratio":
                return call(cons), ""
            if cls == "mul":
                un = first
                for q in qs[1:]:
                    un = un * q.units
                return call(raw), un
            if cls == "div":
                un = first
                for q in qs[1:]:
                    un = un / q.units
                return call(raw), un
            if cls in ("square", "variance"):
                return call(raw), first ** 2
            if cls == "sqrt":
                return call(raw), first ** 0.5
            if cls == "cbrt":
                return call(raw), first ** (1 / 3)
            if cls == "reciprocal":
                return call(raw), first ** -1
            if cls in ("sum", "delta"):
                return call(raw), first
            if cls == "delta,div":
                un = first
                for q in qs[1:]:
                    un = un / q.units
                return call(raw), un
            if cls == "invdiv":
                return call(raw), qs[1].units / first
            if cls.startswith("fixed:"):
                a, b = cls[6:].split(">")
                return call(lambda q: q.to(a or "dimensionless").magnitude), (b or "dimensionless")
            if cls.startswith("consistent>"):
                return call(cons), cls.split(">")[1]
            if cls == "prod":
                r = call(raw)
                axis = kw["axis"] if "axis" in kw else (args[1] if len(args) > 1 and isinstance(args[1], int) else None)
                n = qs[0].magnitude.shape[axis] if axis is not None else qs[0].magnitude.size
                return r, first ** n
            if cls == "power":
                return call(raw), first ** args[1]
            if cls == "full_like":
                return f(args[0].magnitude, args[1].magnitude), args[1].units
            if cls == "trapz":
                return f(args[0].magnitude, dx=kw["dx"].magnitude), first * kw["dx"].units
            if cls == "interp":
                x, xp, fp = args
                fill = {k_: v_.to(fp.units).magnitude for k_, v_ in kw.items() if k_ in ("left", "right")}
                return f(x.to(xp.units).magnitude, xp.magnitude, fp.magnitude, **fill), fp.units
            if cls == "einsum":
                return f(args[0], args[1].magnitude, args[2].magnitude), args[1].units * args[2].units
            if cls == "meshgrid":
                r = f(*[q.magnitude for q in args])
                return list(r), [q.units for q in args]
            if cls == "unwrap":
                return f(args[0].to("radian").magnitude), "radian"
        except Exception:  # noqa: BLE001
            return None
        return None
