#!/bin/bash
# run every registered quick check for the given seeds; print one line per run
cd "$(dirname "$0")/.."
seeds="${@:-0}"
for sd in $seeds; do
  for id in $(jq -r '.checks[].property_id // empty' MANIFEST.json 2>/dev/null || ls harness | sed -n 's/^c\([0-9][0-9]\)\.py$/C\1/p'); do
    out=$(timeout 1500 ./check $id --seed $sd 2>&1); rc=$?
    echo "$id seed=$sd rc=$rc $(echo "$out" | grep -E 'VIOLATION|KNOWN-FINDING' | cut -c1-200 | tr '\n' '|')"
  done
done
