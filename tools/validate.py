#!/usr/bin/env python3
"""Validate MANIFEST.json and every evidence file against the schemas in /root/.vp (offline sanity check)."""
import json, sys, glob, os
import jsonschema
root = os.path.dirname(os.path.dirname(os.path.abspath(__file__)))
bad = 0
man = json.load(open(f"{root}/MANIFEST.json"))
try:
    jsonschema.validate(man, json.load(open("/root/.vp/MANIFEST.schema.json")))
    print("MANIFEST ok")
except jsonschema.ValidationError as e:
    print("MANIFEST INVALID", e.message); bad += 1
es = json.load(open("/root/.vp/EVIDENCE.schema.json"))
for f in sorted(glob.glob(f"{root}/evidence/*.json")):
    ev = json.load(open(f))
    try:
        jsonschema.validate(ev, es)
        c = ev["coverage"]
        note = ""
        if ev["level"] == "proof" and c.get("discharged") != c.get("obligations"):
            note = " DISCHARGED!=OBLIGATIONS"; bad += 1
        print(os.path.basename(f), "ok", ev["tier"], ev["seed"], c.get("obligations"), c.get("discharged"), c.get("evaluations"), c.get("distinct_nontrivial"), note)
    except jsonschema.ValidationError as e:
        print(os.path.basename(f), "INVALID", e.message[:200]); bad += 1
sys.exit(1 if bad else 0)
