#!/bin/bash
# Parallel regression over the recorded seeded changes (tools/seeded_run.sh does the same serially on /repo itself).
# Each lane k works in its own copy of /verif (/tmp/verif<k>) and its own detached worktree of /repo (/tmp/repo<k>), so
# /repo is never touched.  Usage: tools/seeded_par.sh [lanes=6] [name-prefix]   (results: /tmp/x/seeded_par_<k>.log)
cd "$(dirname "$0")/.."
N=${1:-6}; prefix=${2:-}
head=$(git -C /repo rev-parse HEAD)
mkdir -p /tmp/x
rm -f /tmp/x/seeded_par_[0-9]*.log /tmp/x/seeded_par_all.log
dirs=(seeded/${prefix}*/)
pids=()
for ((i=0;i<N;i++)); do
  k=$((i+2))
  [ -d /tmp/repo$k ] || git -C /repo worktree add -q --detach /tmp/repo$k "$head"
  git -C /tmp/repo$k checkout -q -- . ; git -C /tmp/repo$k checkout -q --detach "$head"
  rsync -a --delete /verif/ /tmp/verif$k/
  (
    export PINT_REPO=/tmp/repo$k PYTHONPATH=/tmp/repo$k
    cd /tmp/verif$k
    for ((j=i;j<${#dirs[@]};j+=N)); do
      d=${dirs[$j]}; n=$(basename "$d"); pid=$(jq -r .property "$d/meta.json")
      if [ "$(jq -r '.status // "active"' "$d/meta.json")" = "neutralised" ]; then echo "$n: skipped (neutralised)"; continue; fi
      patch=$(ls "$d"/*.diff | head -1)
      if ! git -C /tmp/repo$k apply --check "$(pwd)/$patch" 2>/dev/null; then echo "$n: PATCH-DOES-NOT-APPLY"; continue; fi
      git -C /tmp/repo$k apply "$(pwd)/$patch"
      out=$(timeout 1500 ./check "$pid" --seed "${SEED:-0}" 2>&1); rc=$?
      git -C /tmp/repo$k checkout -q -- . ; git -C /tmp/repo$k clean -fdq -- pint >/dev/null 2>&1
      line=$(echo "$out" | grep -m1 "^VIOLATION")
      if [ $rc -eq 1 ] && [ -n "$line" ]; then echo "$n: caught by $pid — $line"; else echo "$n: MISSED by $pid (rc=$rc)"; fi
    done
  ) > /tmp/x/seeded_par_$k.log 2>&1 &
  pids+=($!)
done
wait "${pids[@]}"
cat /tmp/x/seeded_par_[0-9]*.log | sort > /tmp/x/seeded_par_all.log
echo "caught: $(grep -c ': caught by' /tmp/x/seeded_par_all.log)  missed: $(grep -c 'MISSED' /tmp/x/seeded_par_all.log)  other: $(grep -vc ': caught by\|MISSED' /tmp/x/seeded_par_all.log)"
grep 'MISSED\|NOT-APPLY' /tmp/x/seeded_par_all.log
