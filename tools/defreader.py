"""Independent reader of pint definition files.

Never imports pint.  Own line classifier, own tokenizer and own exact-rational
expression evaluator (Python precedence: ``**`` right-associative and tighter than
unary minus, ``* /`` left-associative, juxtaposition == ``*``).  Numbers are
``fractions.Fraction``; a power with a non-integer exponent whose result is not an
exact rational is carried as ``Irr`` (float value + text) and reported as irrational.

Output (``read_project``): a plain dict, JSON-able through ``to_json``.
"""
from __future__ import annotations

import math
import os
import re
import sys
import json
from fractions import Fraction


class DefError(Exception):
    pass


class Irr:
    """A scale that is not an exact rational (e.g. ``x ** 0.5``)."""

    def __init__(self, approx: float, text: str):
        self.approx = approx
        self.text = text

    def __repr__(self):
        return f"Irr({self.approx!r})"


def _approx(x):
    return x.approx if isinstance(x, Irr) else float(x) if abs(x) < Fraction(10) ** 300 else float("inf")


def _smul(a, b):
    if isinstance(a, Irr) or isinstance(b, Irr):
        return Irr(_approx(a) * _approx(b), "mul")
    return a * b


def _sdiv(a, b):
    if isinstance(a, Irr) or isinstance(b, Irr):
        return Irr(_approx(a) / _approx(b), "div")
    if b == 0:
        raise DefError("division by zero")
    return a / b


def _iroot(n: int, k: int):
    """exact integer k-th root of n >= 0 or None"""
    if n < 0:
        return None
    if n in (0, 1):
        return n
    r = round(n ** (1.0 / k)) if n < 2 ** 1000 else 1 << (n.bit_length() // k)
    # newton refine
    for _ in range(200):
        r2 = ((k - 1) * r + n // (r ** (k - 1))) // k
        if abs(r2 - r) <= 1:
            break
        r = r2
    for c in (r - 2, r - 1, r, r + 1, r + 2, r2):
        if c >= 0 and c ** k == n:
            return c
    return None


FRACPOW = [0]   # number of non-integer powers taken since last reset (pint computes those in float)


def _spow(a, e: Fraction):
    if e.denominator != 1:
        FRACPOW[0] += 1
    if isinstance(a, Irr):
        return Irr(a.approx ** float(e), "pow")
    if e.denominator == 1:
        if a == 0 and e < 0:
            raise DefError("zero to negative power")
        return a ** int(e)
    # rational exponent: exact when numerator and denominator are perfect powers
    k = e.denominator
    if a > 0:
        rn, rd = _iroot(a.numerator, k), _iroot(a.denominator, k)
        if rn is not None and rd is not None:
            return Fraction(rn, rd) ** e.numerator
        return Irr(float(a) ** float(e), f"({a})**({e})")
    if a == 0:
        return Fraction(0)
    return Irr(float("nan"), "negative base")


class Val:
    """scale * prod(units ** exps); a bare number has empty units."""

    __slots__ = ("scale", "units")

    def __init__(self, scale, units=None):
        self.scale = scale
        self.units = dict(units or {})

    def is_number(self):
        return not self.units

    def mul(self, o):
        u = dict(self.units)
        for k, v in o.units.items():
            nv = u.get(k, Fraction(0)) + v
            if nv == 0:
                u.pop(k, None)
            else:
                u[k] = nv
        return Val(_smul(self.scale, o.scale), u)

    def div(self, o):
        return self.mul(o.pow(Fraction(-1)))

    def pow(self, e: Fraction):
        u = {k: v * e for k, v in self.units.items() if v * e != 0}
        return Val(_spow(self.scale, e), u)


_TOK = re.compile(
    r"\s*(?:(?P<num>(?:\d+\.?\d*|\.\d+)(?:[eE][+-]?\d+)?)"
    r"|(?P<dim>\[[^\]]*\])"
    r"|(?P<name>[^\W\d][\w]*)"
    r"|(?P<op>\*\*|\^|[-+*/()]))",
    re.UNICODE,
)


def tokenize(s: str):
    pos, out = 0, []
    s = s.strip()
    while pos < len(s):
        m = _TOK.match(s, pos)
        if not m or m.end() == pos:
            raise DefError(f"cannot tokenize {s!r} at {pos}")
        pos = m.end()
        if m.group("num") is not None:
            out.append(("num", m.group("num")))
        elif m.group("dim") is not None:
            out.append(("name", m.group("dim")))
        elif m.group("name") is not None:
            out.append(("name", m.group("name")))
        else:
            op = m.group("op")
            out.append(("op", "**" if op == "^" else op))
    return out


class _P:
    def __init__(self, toks):
        self.t = toks
        self.i = 0

    def peek(self):
        return self.t[self.i] if self.i < len(self.t) else (None, None)

    def eat(self):
        tok = self.t[self.i]
        self.i += 1
        return tok

    # expr := term (('+'|'-') term)*
    def expr(self):
        v = self.term()
        while self.peek() in (("op", "+"), ("op", "-")):
            op = self.eat()[1]
            w = self.term()
            if not (v.is_number() and w.is_number()):
                raise DefError("addition of units")
            if isinstance(v.scale, Irr) or isinstance(w.scale, Irr):
                s = Irr(_approx(v.scale) + (1 if op == "+" else -1) * _approx(w.scale), "add")
            else:
                s = v.scale + w.scale if op == "+" else v.scale - w.scale
            v = Val(s)
        return v

    # term := unary (('*'|'/'|juxtaposition) unary)*
    def term(self):
        v = self.unary()
        while True:
            k, s = self.peek()
            if (k, s) == ("op", "*"):
                self.eat()
                v = v.mul(self.unary())
            elif (k, s) == ("op", "/"):
                self.eat()
                v = v.div(self.unary())
            elif k in ("num", "name") or (k, s) == ("op", "("):
                v = v.mul(self.unary())
            else:
                return v

    # unary := ('-'|'+') unary | power
    def unary(self):
        if self.peek() == ("op", "-"):
            self.eat()
            return Val(Fraction(-1)).mul(self.unary())
        if self.peek() == ("op", "+"):
            self.eat()
            return self.unary()
        return self.power()

    # power := atom ('**' unary)?
    def power(self):
        b = self.atom()
        if self.peek() == ("op", "**"):
            self.eat()
            e = self.unary()
            if not e.is_number() or isinstance(e.scale, Irr):
                raise DefError("non numeric exponent")
            return b.pow(e.scale)
        return b

    def atom(self):
        k, s = self.peek()
        if k == "num":
            self.eat()
            return Val(Fraction(s))
        if k == "name":
            self.eat()
            return Val(Fraction(1), {s: Fraction(1)})
        if (k, s) == ("op", "("):
            self.eat()
            v = self.expr()
            if self.peek() != ("op", ")"):
                raise DefError("unbalanced parenthesis")
            self.eat()
            return v
        raise DefError(f"unexpected token {s!r}")


def evaluate(s: str) -> Val:
    s = s.strip()
    if not s:
        return Val(Fraction(1))
    p = _P(tokenize(s))
    v = p.expr()
    if p.i != len(p.t):
        raise DefError(f"trailing tokens in {s!r}")
    return v


def to_number(s: str):
    v = evaluate(s)
    if not v.is_number():
        raise DefError(f"not numeric: {s!r}")
    return v.scale


# ---------------------------------------------------------------------------------------
# line level


def strip_comment(line: str) -> str:
    i = line.find("#")
    if i >= 0:
        line = line[:i]
    return line.strip()


def _split_eq(s: str):
    return [p.strip() for p in s.split("=")]


def _symbol_aliases(rest):
    symbol = None
    if rest:
        if rest[0] == "_":
            rest = rest[1:]
        else:
            symbol, rest = rest[0], rest[1:]
        rest = [a for a in rest if a not in ("", "_")]
    return (symbol or None), list(rest)


def parse_prefix(s: str):
    parts = s.split("=")
    name = parts[0].strip()
    assert name.endswith("-")
    name = name.rstrip("-")
    rest = [a.strip().rstrip("-") for a in parts[2:]]
    symbol, aliases = _symbol_aliases(rest)
    return {"kind": "prefix", "name": name, "value": to_number(parts[1]), "symbol": symbol, "aliases": aliases, "text": s}


def parse_unit(s: str):
    parts = _split_eq(s)
    name, value = parts[0], parts[1]
    symbol, aliases = _symbol_aliases(parts[2:])
    modifiers = {}
    if ";" in value:
        conv, mods = value.split(";", 1)
        for part in mods.split(";"):
            k, v = part.split(":")
            modifiers[k.strip()] = to_number(v)
    else:
        conv = value
    FRACPOW[0] = 0
    v = evaluate(conv)
    fracpow = FRACPOW[0] > 0
    keys = list(v.units)
    dims = [k.startswith("[") and k.endswith("]") for k in keys]
    if keys and all(dims):
        is_base = True
    elif not any(dims):
        is_base = False
    else:
        raise DefError(f"mixed dimension/unit reference in {s!r}")
    kind = "scale"
    if set(modifiers) == {"offset"}:
        kind = "offset" if modifiers["offset"] != 0 else "scale"
    elif set(modifiers) == {"logbase", "logfactor"}:
        kind = "log"
    elif modifiers:
        raise DefError(f"unknown modifiers {sorted(modifiers)} in {s!r}")
    return {
        "kind": "unit", "name": name, "symbol": symbol, "aliases": aliases, "scale": v.scale,
        "ref": v.units, "is_base": is_base, "conv": kind, "modifiers": modifiers, "text": s,
        "fracpow": fracpow,
    }


def parse_dimension(s: str):
    parts = _split_eq(s)
    if len(parts) == 1:
        return {"kind": "dim", "name": parts[0], "ref": None, "text": s}
    if len(parts) != 2:
        raise DefError("derived dimensions cannot have aliases")
    v = evaluate(parts[1])
    if v.scale != 1:
        raise DefError("scale in dimension")
    return {"kind": "dim", "name": parts[0], "ref": v.units, "text": s}


def classify(s: str):
    """Top-level line (comment already removed, non-empty) -> record."""
    if s.startswith("@alias "):
        name, *aliases = s[len("@alias "):].split("=")
        return {"kind": "alias", "name": name.strip(), "aliases": [a.strip() for a in aliases], "text": s}
    if s.startswith("["):
        return parse_dimension(s)
    if "=" in s:
        if s.split("=")[0].strip().endswith("-"):
            return parse_prefix(s)
        return parse_unit(s)
    raise DefError(f"cannot classify line {s!r}")


_GROUP_RE = re.compile(r"@group\s+(?P<name>\w+)\s*(using\s(?P<used>.*))*")
_SYSTEM_RE = re.compile(r"@system\s+(?P<name>\w+)\s*(using\s(?P<used>.*))*")
_CTX_RE = re.compile(r"@context\s*(?P<defaults>\(.*\))?\s+(?P<name>\w+)\s*(=(?P<aliases>.*))*")


def read_lines(lines, base_dir=None, out=None):
    """Return list of records in file order (imports inlined)."""
    out = [] if out is None else out
    it = iter(lines)
    for raw in it:
        s = strip_comment(raw)
        if not s:
            continue
        if s.startswith("@import"):
            target = s[len("@import"):].strip()
            path = os.path.join(base_dir or ".", target)
            with open(path, encoding="utf-8") as fh:
                read_lines(fh.read().splitlines(), os.path.dirname(path), out)
            continue
        if s.startswith("@defaults"):
            d = {}
            for raw2 in it:
                s2 = strip_comment(raw2)
                if s2 == "@end":
                    break
                if s2:
                    k, v = _split_eq(s2)
                    d[k] = v
            else:
                raise DefError("unterminated @defaults")
            out.append({"kind": "defaults", "values": d})
            continue
        if s.startswith("@group"):
            m = _GROUP_RE.search(s)
            used = [a.strip() for a in m.group("used").split(",")] if m.group("used") else []
            body = []
            for raw2 in it:
                s2 = strip_comment(raw2)
                if s2 == "@end":
                    break
                if s2:
                    body.append(parse_unit(s2) if "=" in s2 else {"kind": "member", "name": s2})
            else:
                raise DefError("unterminated @group")
            out.append({"kind": "group", "name": m.group("name"), "using": used, "body": body})
            continue
        if s.startswith("@system"):
            m = _SYSTEM_RE.search(s)
            used = [a.strip() for a in m.group("used").split(",")] if m.group("used") else ["root"]
            rules = []
            for raw2 in it:
                s2 = strip_comment(raw2)
                if s2 == "@end":
                    break
                if s2:
                    if ":" in s2:
                        new, old = [p.strip() for p in s2.split(":")]
                        rules.append([new, old])
                    else:
                        rules.append([s2, None])
            else:
                raise DefError("unterminated @system")
            out.append({"kind": "system", "name": m.group("name"), "using": used, "rules": rules})
            continue
        if s.startswith("@context"):
            m = _CTX_RE.search(s)
            aliases = [a.strip() for a in m.group("aliases").split("=")] if m.group("aliases") else []
            defaults = {}
            if m.group("defaults"):
                for part in m.group("defaults").strip("()").split(","):
                    k, v = part.split("=")
                    defaults[k.strip()] = to_number(v)
            relations, redefs = [], []
            for raw2 in it:
                s2 = strip_comment(raw2)
                if s2 == "@end":
                    break
                if not s2:
                    continue
                if ":" in s2 and "->" in s2:
                    rel, eq = s2.split(":")
                    bidir = "<->" in rel
                    a, b = rel.split("<->" if bidir else "->")
                    relations.append({"src": evaluate(a).units, "dst": evaluate(b).units, "bidir": bidir, "eq": eq.strip()})
                else:
                    redefs.append(parse_unit(s2))
            else:
                raise DefError("unterminated @context")
            out.append({"kind": "context", "name": m.group("name"), "aliases": aliases, "defaults": defaults,
                        "relations": relations, "redefs": redefs})
            continue
        if s.startswith("@") and not s.startswith("@alias"):
            raise DefError(f"unknown directive {s!r}")
        out.append(classify(s))
    return out


def read_file(path):
    with open(path, encoding="utf-8") as fh:
        return read_lines(fh.read().splitlines(), os.path.dirname(os.path.abspath(path)))


# ---------------------------------------------------------------------------------------
# meaning


class Project:
    """Tables built from the records the way the written definitions say."""

    def __init__(self, records):
        self.records = records
        self.prefixes = []      # records
        self.units = []         # records (top level and inside groups), definition order
        self.dims = []
        self.groups = []
        self.systems = []
        self.contexts = []
        self.defaults = {}
        self.aliases = []
        for r in records:
            k = r["kind"]
            if k == "prefix":
                self.prefixes.append(r)
            elif k == "unit":
                self.units.append(r)
            elif k == "dim":
                self.dims.append(r)
            elif k == "alias":
                self.aliases.append(r)
            elif k == "defaults":
                self.defaults.update(r["values"])
            elif k == "group":
                self.groups.append(r)
                for b in r["body"]:
                    if b["kind"] == "unit":
                        self.units.append(b)
            elif k == "system":
                self.systems.append(r)
            elif k == "context":
                self.contexts.append(r)
        # spelling tables (later definitions win)
        self.unit_by_key = {}
        for u in self.units:
            for key in self.unit_keys(u):
                self.unit_by_key[key] = u
        for a in self.aliases:
            u = self.unit_by_key.get(a["name"])
            if u is None:
                raise DefError(f"@alias of unknown unit {a['name']}")
            for al in a["aliases"]:
                self.unit_by_key[al] = u
        self.prefix_keys = [("", {"name": "", "value": Fraction(1), "symbol": None, "aliases": []})]
        seen = {"": 0}
        for p in self.prefixes:
            for key in [p["name"]] + ([p["symbol"]] if p["symbol"] else []) + p["aliases"]:
                if key in seen:
                    self.prefix_keys[seen[key]] = (key, p)
                else:
                    seen[key] = len(self.prefix_keys)
                    self.prefix_keys.append((key, p))
        self.dim_by_name = {}
        for d in self.dims:
            if d["ref"] is not None:
                for k in d["ref"]:
                    self.dim_by_name.setdefault(k, {"kind": "dim", "name": k, "ref": None})
            self.dim_by_name[d["name"]] = d
        for u in self.units:
            if u["is_base"]:
                for k in u["ref"]:
                    self.dim_by_name.setdefault(k, {"kind": "dim", "name": k, "ref": None})

    @staticmethod
    def unit_keys(u):
        return [u["name"]] + ([u["symbol"]] if u["symbol"] else []) + list(u["aliases"])

    # --- name resolution: exact spelling first, then prefix + unit + plural s
    def candidates(self, s: str):
        out = []
        for suffix in ("", "s"):
            for pk, p in self.prefix_keys:
                if s.startswith(pk) and s.endswith(suffix):
                    stem = s[len(pk):]
                    if suffix:
                        stem = stem[: -len(suffix)]
                        if len(stem) == 1:
                            continue
                    if stem in self.unit_by_key:
                        c = (p["name"], self.unit_by_key[stem]["name"])
                        if c not in out:
                            out.append(c)
        for pn, un in list(out):
            if pn and ("", pn + un) in out:
                out.remove(("", pn + un))
        return out

    def resolve(self, s: str):
        """-> (prefix record or None, unit record)"""
        if s in self.unit_by_key:
            return None, self.unit_by_key[s]
        c = self.candidates(s)
        if not c:
            raise DefError(f"undefined unit {s!r}")
        pn, un = c[0]
        p = next(p for k, p in self.prefix_keys if p["name"] == pn)
        return (p if pn else None), self.unit_by_key[un]

    def root(self, units: dict, _depth=0):
        """Expand {name: exp} through the written definitions: (factor, {base unit: exp})."""
        if _depth > 200:
            raise DefError("cyclic definition")
        factor = Fraction(1)
        acc = {}
        for name, e in units.items():
            p, u = self.resolve(name)
            if p is not None:
                factor = _smul(factor, _spow(p["value"], e))
            if u["is_base"]:
                acc[u["name"]] = acc.get(u["name"], Fraction(0)) + e
            else:
                factor = _smul(factor, _spow(u["scale"], e))
                f2, a2 = self.root(u["ref"], _depth + 1)
                factor = _smul(factor, _spow(f2, e))
                for k, v in a2.items():
                    acc[k] = acc.get(k, Fraction(0)) + v * e
        return factor, {k: v for k, v in acc.items() if v != 0}

    def dim_of_dims(self, dims: dict, _depth=0):
        if _depth > 200:
            raise DefError("cyclic dimension")
        acc = {}
        for name, e in dims.items():
            d = self.dim_by_name.get(name)
            if d is None:
                raise DefError(f"undefined dimension {name}")
            if d["ref"] is None:
                acc[name] = acc.get(name, Fraction(0)) + e
            else:
                for k, v in self.dim_of_dims(d["ref"], _depth + 1).items():
                    acc[k] = acc.get(k, Fraction(0)) + v * e
        acc.pop("[]", None)
        return {k: v for k, v in acc.items() if v != 0}

    def dimensionality(self, units: dict):
        _, base = self.root(units)
        acc = {}
        for b, e in base.items():
            u = self.unit_by_key[b]
            for k, v in self.dim_of_dims(u["ref"]).items():
                acc[k] = acc.get(k, Fraction(0)) + v * e
        acc.pop("[]", None)
        return {k: v for k, v in acc.items() if v != 0}


def frac_str(x):
    if isinstance(x, Irr):
        return None
    return f"{x.numerator}/{x.denominator}"


def uc_json(d):
    return [[k, frac_str(v)] for k, v in d.items()]


def load_default(repo="/repo"):
    return Project(read_file(os.path.join(repo, "pint", "default_en.txt")))


if __name__ == "__main__":
    proj = load_default(sys.argv[1] if len(sys.argv) > 1 else "/repo")
    print(len(proj.units), "units", len(proj.prefixes), "prefixes", len(proj.dims), "dims",
          len(proj.groups), "groups", len(proj.systems), "systems", len(proj.contexts), "contexts")
    irr = 0
    for u in proj.units:
        f, b = proj.root({u["name"]: Fraction(1)})
        if isinstance(f, Irr):
            irr += 1
    print("irrational:", irr)
