#!/usr/bin/env python3
"""Refresh the findings table and the seeded-changes table of DESIGN.md (between the HTML comment markers) from
known_findings.json and seeded/*/meta.json."""
import glob, json, os, re
root = os.path.dirname(os.path.dirname(os.path.abspath(__file__)))
k = json.load(open(f"{root}/known_findings.json"))["findings"]


def key(f):
    s = f["id"][1:]
    return (int("".join(c for c in s if c.isdigit())), s)


ft = ["| id | property | status | what failed on the real code | fix commit |", "|---|---|---|---|---|"]
for f in sorted(k, key=key):
    ft.append(f"| {f['id']} | {f['property']} | {f['status']} | {f['what'][:230].replace('|', '/')} | {f.get('commit', '')} |")
st = ["| seeded change (seeded/<name>/) | property | what it does | caught at first try | caught by | strengthening it prompted |", "|---|---|---|---|---|---|"]
for d in sorted(glob.glob(f"{root}/seeded/*/meta.json")):
    m = json.load(open(d))
    n = os.path.basename(os.path.dirname(d))
    strengthening = m.get("strengthening") or "none"
    first = "yes" if strengthening.startswith("none") else "no"
    if m.get("status") == "neutralised":
        strengthening += " — NO LONGER A VIOLATION: " + m.get("neutralised_by", "")[:160]
    st.append(f"| {n} | {m['property']} | {m['summary'][:170].replace('|', '/')} | {first} | "
              f"{'; '.join(m.get('caught_by', []))[:170].replace('|', '/')} | {strengthening[:200].replace('|', '/')} |")
p = f"{root}/DESIGN.md"
s = open(p).read()
for tag, rows in (("FINDINGS", ft), ("SEEDED", st)):
    a, b = f"<!-- {tag}-TABLE-BEGIN -->", f"<!-- {tag}-TABLE-END -->"
    i, j = s.index(a) + len(a), s.index(b)
    s = s[:i] + "\n" + "\n".join(rows) + "\n" + s[j:]
open(p, "w").write(s)
print("tables refreshed:", len(ft) - 2, "findings,", len(st) - 2, "seeded changes")
