#!/bin/bash
# Regression over the recorded seeded changes: apply each patch to /repo, run the property's quick check, expect exit 1
# with a VIOLATION line, undo.  Never commits anything in /repo.  Usage: tools/seeded_run.sh [name-prefix]
cd "$(dirname "$0")/.."
if ! git -C /repo diff --quiet; then echo "/repo has uncommitted changes, refusing"; exit 2; fi
fail=0
# evidence is rewritten by every run: keep the clean tree's evidence aside
ev=$(mktemp -d); cp -a evidence/. "$ev"/ 2>/dev/null
for d in seeded/${1:-}*/; do
  n=$(basename "$d"); pid=$(jq -r .property "$d/meta.json")
  if [ "$(jq -r '.status // "active"' "$d/meta.json")" = "neutralised" ]; then echo "$n: skipped (no longer a violation: see meta.json)"; continue; fi
  patch=$(ls "$d"/*.diff | head -1)
  if ! git -C /repo apply --check "$(pwd)/$patch" 2>/dev/null; then echo "$n: PATCH-DOES-NOT-APPLY"; fail=1; continue; fi
  git -C /repo apply "$(pwd)/$patch"
  out=$(timeout 1500 ./check "$pid" --seed "${SEED:-0}" 2>&1); rc=$?
  git -C /repo checkout -- . ; git -C /repo clean -fdq -- pint >/dev/null 2>&1
  line=$(echo "$out" | grep -m1 "^VIOLATION")
  if [ $rc -eq 1 ] && [ -n "$line" ]; then echo "$n: caught by $pid — $line"; else echo "$n: MISSED by $pid (rc=$rc)"; fail=1; fi
done
cp -a "$ev"/. evidence/ 2>/dev/null; rm -rf "$ev"
# regenerate the translated files for the clean tree
python3 tools/gen.py /repo >/dev/null 2>&1
exit $fail
